//! The only module that touches simfony's program pipeline: compile / commit / satisfy / encode / decode /
//! execute, each under catch_unwind, returning structured observations.

use crate::big::Big;
use crate::lang::{Ty, Val};
use simfony::num::{NonZeroPow2Usize, U256};
use simfony::simplicity;
use simfony::simplicity::jet::elements::ElementsEnv;
use simfony::simplicity::jet::Elements;
use simfony::simplicity::{BitIter, BitMachine, Cmr, RedeemNode};
use simfony::str::WitnessName;
use simfony::types::{TypeConstructible, TypeInner, UIntType};
use simfony::value::{UIntValue, ValueConstructible, ValueInner};
use simfony::{elements, Arguments, CompiledProgram, ResolvedType, TemplateProgram, Value, WitnessValues};
use std::cell::RefCell;
use std::collections::HashMap;
use std::panic::{catch_unwind, AssertUnwindSafe};
use std::sync::Arc;

pub type Env = ElementsEnv<Arc<elements::Transaction>>;

thread_local! {
    static LAST_PANIC: RefCell<Option<String>> = const { RefCell::new(None) };
    static GUARD_DEPTH: std::cell::Cell<u32> = const { std::cell::Cell::new(0) };
}

/// Install a silent panic hook that records message + location per thread.
pub fn install_panic_hook() {
    std::panic::set_hook(Box::new(|info| {
        let loc = info.location().map(|l| format!("{}:{}", l.file(), l.line())).unwrap_or_default();
        let msg = if let Some(s) = info.payload().downcast_ref::<&str>() {
            s.to_string()
        } else if let Some(s) = info.payload().downcast_ref::<String>() {
            s.clone()
        } else {
            "<non-string panic>".to_string()
        };
        let short: String = msg.chars().take(160).collect();
        if GUARD_DEPTH.with(|d| d.get()) == 0 {
            // a panic outside any guarded call into the subject is a harness bug: make it visible
            eprintln!("HARNESS PANIC at {loc}: {short}");
        }
        LAST_PANIC.with(|p| *p.borrow_mut() = Some(format!("{loc}: {short}")));
    }));
}

/// Run `f` catching panics; Err(description with location) on panic.
pub fn guard<T>(f: impl FnOnce() -> T) -> Result<T, String> {
    LAST_PANIC.with(|p| *p.borrow_mut() = None);
    GUARD_DEPTH.with(|d| d.set(d.get() + 1));
    let r = catch_unwind(AssertUnwindSafe(f));
    GUARD_DEPTH.with(|d| d.set(d.get() - 1));
    match r {
        Ok(v) => Ok(v),
        Err(_) => Err(LAST_PANIC.with(|p| p.borrow_mut().take()).unwrap_or_else(|| "panic (no info)".into())),
    }
}

/// Strip the workspace-specific prefix of a panic location so that signatures are stable.
pub fn panic_site(desc: &str) -> String {
    let loc = desc.split(": ").next().unwrap_or("");
    let loc = match loc.rfind("/src/") {
        Some(i) => {
            // keep "<crate-dir>/src/..." last two components
            let head = &loc[..i];
            let krate = head.rsplit('/').next().unwrap_or("");
            format!("{krate}{}", &loc[i..])
        }
        None => loc.to_string(),
    };
    loc
}

// ---------------------------------------------------------------------------------------------
// conversions harness <-> simfony (constructors only, never the text parser)

pub fn uint_type(n: u16) -> UIntType {
    match n {
        1 => UIntType::U1,
        2 => UIntType::U2,
        4 => UIntType::U4,
        8 => UIntType::U8,
        16 => UIntType::U16,
        32 => UIntType::U32,
        64 => UIntType::U64,
        128 => UIntType::U128,
        256 => UIntType::U256,
        _ => panic!("bad uint width {n}"),
    }
}

/// Resolved harness type -> simfony type.
pub fn sim_ty(ty: &Ty) -> ResolvedType {
    match ty {
        Ty::Bool => ResolvedType::boolean(),
        Ty::U(n) => ResolvedType::from(uint_type(*n)),
        Ty::Tuple(v) => ResolvedType::tuple(v.iter().map(sim_ty)),
        Ty::Array(t, n) => ResolvedType::array(sim_ty(t), *n),
        Ty::List(t, n) => ResolvedType::list(sim_ty(t), NonZeroPow2Usize::new(*n).expect("list bound")),
        Ty::Option(t) => ResolvedType::option(sim_ty(t)),
        Ty::Either(a, b) => ResolvedType::either(sim_ty(a), sim_ty(b)),
        Ty::Alias(n) => panic!("sim_ty of unresolved alias {n}"),
    }
}

pub fn from_sim_ty(ty: &ResolvedType) -> Ty {
    match ty.as_inner() {
        TypeInner::Boolean => Ty::Bool,
        TypeInner::UInt(u) => Ty::U(u.bit_width().get() as u16),
        TypeInner::Tuple(v) => Ty::Tuple(v.iter().map(|t| from_sim_ty(t)).collect()),
        TypeInner::Array(t, n) => Ty::arr(from_sim_ty(t), *n),
        TypeInner::List(t, n) => Ty::list(from_sim_ty(t), n.get()),
        TypeInner::Option(t) => Ty::opt(from_sim_ty(t)),
        TypeInner::Either(a, b) => Ty::either(from_sim_ty(a), from_sim_ty(b)),
        _ => panic!("unknown TypeInner variant"),
    }
}

pub fn sim_uint(w: u16, b: &Big) -> UIntValue {
    let v = || b.to_u128().expect("fits");
    match w {
        1 => UIntValue::U1(v() as u8),
        2 => UIntValue::U2(v() as u8),
        4 => UIntValue::U4(v() as u8),
        8 => UIntValue::U8(v() as u8),
        16 => UIntValue::U16(v() as u16),
        32 => UIntValue::U32(v() as u32),
        64 => UIntValue::U64(v() as u64),
        128 => UIntValue::U128(v()),
        256 => {
            let bytes = b.to_bytes(32);
            let mut a = [0u8; 32];
            a.copy_from_slice(&bytes);
            UIntValue::U256(U256::from_byte_array(a))
        }
        _ => panic!("bad width"),
    }
}

/// Harness value at a resolved type -> simfony value, through the Rust constructors.
pub fn sim_val(v: &Val, ty: &Ty) -> Value {
    match (v, ty) {
        (Val::Bool(b), Ty::Bool) => Value::from(*b),
        (Val::U(w, b), Ty::U(_)) => Value::from(sim_uint(*w, b)),
        (Val::Tuple(vs), Ty::Tuple(ts)) => Value::tuple(vs.iter().zip(ts).map(|(v, t)| sim_val(v, t))),
        (Val::Array(vs), Ty::Array(t, _)) => Value::array(vs.iter().map(|v| sim_val(v, t)), sim_ty(t)),
        (Val::List(vs), Ty::List(t, n)) => Value::list(vs.iter().map(|v| sim_val(v, t)), sim_ty(t), NonZeroPow2Usize::new(*n).unwrap()),
        (Val::Left(x), Ty::Either(a, b)) => Value::left(sim_val(x, a), sim_ty(b)),
        (Val::Right(x), Ty::Either(a, b)) => Value::right(sim_ty(a), sim_val(x, b)),
        (Val::None, Ty::Option(a)) => Value::none(sim_ty(a)),
        (Val::Some(x), Ty::Option(a)) => Value::some(sim_val(x, a)),
        _ => panic!("sim_val: {v:?} at {}", ty.render()),
    }
}

pub fn from_sim_val(v: &Value) -> Val {
    match v.inner() {
        ValueInner::Boolean(b) => Val::Bool(*b),
        ValueInner::UInt(u) => match u {
            UIntValue::U1(x) => Val::u(1, *x as u128),
            UIntValue::U2(x) => Val::u(2, *x as u128),
            UIntValue::U4(x) => Val::u(4, *x as u128),
            UIntValue::U8(x) => Val::u(8, *x as u128),
            UIntValue::U16(x) => Val::u(16, *x as u128),
            UIntValue::U32(x) => Val::u(32, *x as u128),
            UIntValue::U64(x) => Val::u(64, *x as u128),
            UIntValue::U128(x) => Val::u(128, *x),
            UIntValue::U256(x) => Val::U(256, Big::from_bytes(&x.to_byte_array())),
        },
        ValueInner::Tuple(vs) => Val::Tuple(vs.iter().map(from_sim_val).collect()),
        ValueInner::Array(vs) => Val::Array(vs.iter().map(from_sim_val).collect()),
        ValueInner::List(vs, _) => Val::List(vs.iter().map(from_sim_val).collect()),
        ValueInner::Either(e) => match e {
            simfony::either::Either::Left(x) => Val::Left(Box::new(from_sim_val(x))),
            simfony::either::Either::Right(x) => Val::Right(Box::new(from_sim_val(x))),
        },
        ValueInner::Option(o) => match o {
            None => Val::None,
            Some(x) => Val::Some(Box::new(from_sim_val(x))),
        },
    }
}

pub fn witness_map(m: &[(String, Val, Ty)]) -> WitnessValues {
    let mut h = HashMap::new();
    for (n, v, t) in m {
        h.insert(WitnessName::from_str_unchecked(n), sim_val(v, t));
    }
    WitnessValues::from(h)
}

pub fn argument_map(m: &[(String, Val, Ty)]) -> Arguments {
    let mut h = HashMap::new();
    for (n, v, t) in m {
        h.insert(WitnessName::from_str_unchecked(n), sim_val(v, t));
    }
    Arguments::from(h)
}

// ---------------------------------------------------------------------------------------------
// pipeline

#[derive(Debug, Clone, PartialEq, Eq)]
pub enum CompileOutcome {
    /// TemplateProgram::new returned Err
    Rejected(String),
    /// instantiate returned Err
    InstantiateErr(String),
    /// some stage panicked
    Panic(String),
}

pub struct Built {
    pub template: TemplateProgram,
    pub compiled: CompiledProgram,
    pub cmr: Cmr,
    /// arguments / debug flag of `compiled` (None: no fresh instance can be made)
    pub fresh: Option<(Arguments, bool)>,
    /// number of runs that were also replayed on a fresh instance whose `commit()` was never called
    pub fresh_runs: std::sync::atomic::AtomicUsize,
    pub fresh_pruned_runs: std::sync::atomic::AtomicUsize,
    /// number of `run` calls so far, and the first call's (witness map, outcome class, byte fingerprint): the first
    /// call is repeated after other calls have been made on the same instance and must give the same bytes
    pub runs: std::sync::atomic::AtomicUsize,
    pub first_run: std::sync::Mutex<Option<(WitnessValues, &'static str, u64)>>,
    /// the same for `satisfy_with_env` calls (kept by C18): (witness map, (lock_time, sequence), class, fingerprint)
    pub pruned_calls: std::sync::atomic::AtomicUsize,
    pub first_pruned: std::sync::Mutex<Option<(WitnessValues, (u32, u32), &'static str, u64)>>,
}

/// The first call of `run` on an instance is repeated as call number 4 and 18 (after 3 resp. 17 other calls).
pub const REPEAT_FIRST_AT: [usize; 2] = [3, 17];

/// How many runs per built program are repeated on a fresh `instantiate` result that is satisfied before
/// anything called `commit()` on it (the order used by `SatisfiedProgram::new` and simc).
pub const FRESH_RUNS_PER_PROGRAM: usize = 1;

/// new -> instantiate -> commit().cmr()
pub fn build(text: &str, args: Arguments, debug: bool) -> Result<Built, CompileOutcome> {
    let template = match guard(|| TemplateProgram::new(text)) {
        Ok(Ok(t)) => t,
        Ok(Err(e)) => return Err(CompileOutcome::Rejected(e)),
        Err(p) => return Err(CompileOutcome::Panic(format!("new: {p}"))),
    };
    let fresh = Some((args.clone(), debug));
    let compiled = match guard(|| template.instantiate(args, debug)) {
        Ok(Ok(c)) => c,
        Ok(Err(e)) => return Err(CompileOutcome::InstantiateErr(e)),
        Err(p) => return Err(CompileOutcome::Panic(format!("instantiate: {p}"))),
    };
    let cmr = match guard(|| compiled.commit().cmr()) {
        Ok(c) => c,
        Err(p) => return Err(CompileOutcome::Panic(format!("commit: {p}"))),
    };
    Ok(Built { template, compiled, cmr, fresh, fresh_runs: Default::default(), fresh_pruned_runs: Default::default(), runs: Default::default(), first_run: Default::default(), pruned_calls: Default::default(), first_pruned: Default::default() })
}

struct OnRef<'a> {
    compiled: &'a CompiledProgram,
    cmr: Cmr,
}

#[derive(Debug, Clone, PartialEq, Eq)]
pub enum RunOutcome {
    /// the outcome depends on whether `commit()` was called on the instance before `satisfy`
    OrderDependent(String),
    SatisfyErr(String),
    SatisfyPanic(String),
    CmrMismatch,
    DecodeErr(String),
    DecodeCmrMismatch,
    MachineErr(String),
    ExecPanic(String),
    /// witness node whose value is not of the node's target type (ill-typed value reached the encoder)
    IllTypedWitness,
    Success,
    Failure(String),
}

impl RunOutcome {
    pub fn class(&self) -> &'static str {
        match self {
            RunOutcome::OrderDependent(_) => "satisfy-before-commit-differs",
            RunOutcome::SatisfyErr(_) => "satisfy-err",
            RunOutcome::SatisfyPanic(_) => "satisfy-panic",
            RunOutcome::CmrMismatch => "cmr-mismatch",
            RunOutcome::DecodeErr(_) => "decode-err",
            RunOutcome::DecodeCmrMismatch => "decode-cmr-mismatch",
            RunOutcome::MachineErr(_) => "machine-err",
            RunOutcome::ExecPanic(_) => "exec-panic",
            RunOutcome::IllTypedWitness => "ill-typed-witness",
            RunOutcome::Success => "success",
            RunOutcome::Failure(_) => "failure",
        }
    }
    pub fn is_verdict(&self) -> bool {
        matches!(self, RunOutcome::Success | RunOutcome::Failure(_))
    }
}

pub fn redeem_witnesses_well_typed(node: &RedeemNode<Elements>) -> bool {
    use simplicity::dag::{DagLike, InternalSharing};
    use simplicity::node::Inner;
    for item in node.post_order_iter::<InternalSharing>() {
        if let Inner::Witness(v) = item.node.inner() {
            if !v.is_of_type(&item.node.arrow().target) {
                return false;
            }
        }
    }
    true
}

/// Decode an encoded redeem program and execute it. (the consensus path: bytes -> decoder -> Bit Machine)
pub fn decode_and_exec(prog: Vec<u8>, wit: Vec<u8>, expect_cmr: Cmr, env: &Env) -> RunOutcome {
    let decoded = match guard(|| RedeemNode::<Elements>::decode(BitIter::from(prog.into_iter()), BitIter::from(wit.into_iter()))) {
        Ok(Ok(n)) => n,
        Ok(Err(e)) => return RunOutcome::DecodeErr(e.to_string()),
        Err(p) => return RunOutcome::ExecPanic(format!("decode: {p}")),
    };
    if decoded.cmr() != expect_cmr {
        return RunOutcome::DecodeCmrMismatch;
    }
    exec_node(&decoded, env)
}

pub fn exec_node(node: &RedeemNode<Elements>, env: &Env) -> RunOutcome {
    let r = guard(|| {
        let mut mac = match BitMachine::for_program(node) {
            Ok(m) => m,
            Err(e) => return RunOutcome::MachineErr(e.to_string()),
        };
        match mac.exec(node, env) {
            Ok(_) => RunOutcome::Success,
            Err(e) => RunOutcome::Failure(e.to_string()),
        }
    });
    match r {
        Ok(o) => o,
        Err(p) => RunOutcome::ExecPanic(p),
    }
}

/// satisfy -> redeem CMR check -> encode -> decode -> exec under `env`.
pub fn run(built: &Built, witness: WitnessValues, env: &Env) -> RunOutcome {
    let n = built.runs.fetch_add(1, std::sync::atomic::Ordering::Relaxed);
    let (committed, fp) = run_on_bytes(&built.compiled, built.cmr, witness.clone(), env);
    if n == 0 {
        *built.first_run.lock().unwrap() = Some((witness.clone(), committed.class(), fp));
    } else if REPEAT_FIRST_AT.contains(&n) {
        let first = built.first_run.lock().unwrap().clone();
        if let Some((w0, class0, fp0)) = first {
            let (again, fp1) = run_on_bytes(&built.compiled, built.cmr, w0, env);
            if again.class() != class0 || fp1 != fp0 {
                return RunOutcome::OrderDependent(format!("the first satisfy() call on this instance gave {class0} / bytes {fp0:016x}; repeated after {n} other calls it gives {} / bytes {fp1:016x}", again.class()));
            }
        }
    }
    if let Some((args, debug)) = &built.fresh {
        if built.fresh_runs.fetch_add(1, std::sync::atomic::Ordering::Relaxed) < FRESH_RUNS_PER_PROGRAM {
            let fresh = match guard(|| built.template.instantiate(args.clone(), *debug)) {
                Ok(Ok(c)) => run_on(&c, built.cmr, witness, env),
                Ok(Err(e)) => RunOutcome::SatisfyErr(format!("second instantiate failed: {e}")),
                Err(p) => RunOutcome::SatisfyPanic(format!("second instantiate: {p}")),
            };
            if fresh.class() != committed.class() {
                return RunOutcome::OrderDependent(format!("satisfy before any commit(): {fresh:?}; satisfy after commit(): {committed:?}"));
            }
        }
    }
    committed
}

/// satisfy -> CMR comparison -> witness typing -> encode -> decode -> execute, on one compiled instance
pub fn run_on(compiled: &CompiledProgram, cmr: Cmr, witness: WitnessValues, env: &Env) -> RunOutcome {
    run_on_bytes(compiled, cmr, witness, env).0
}

/// `run_on`, also returning a fingerprint of the encoded redeem program (program bytes + witness bytes)
pub fn run_on_bytes(compiled: &CompiledProgram, cmr: Cmr, witness: WitnessValues, env: &Env) -> (RunOutcome, u64) {
    let mut fp = 0u64;
    let o = run_on_inner(compiled, cmr, witness, env, &mut fp);
    (o, fp)
}

fn run_on_inner(compiled: &CompiledProgram, cmr: Cmr, witness: WitnessValues, env: &Env, fp: &mut u64) -> RunOutcome {
    let built = OnRef { compiled, cmr };
    let sat = match guard(|| built.compiled.satisfy(witness)) {
        Ok(Ok(s)) => s,
        Ok(Err(e)) => return RunOutcome::SatisfyErr(e),
        Err(p) => return RunOutcome::SatisfyPanic(p),
    };
    if sat.redeem().cmr() != built.cmr {
        return RunOutcome::CmrMismatch;
    }
    if !redeem_witnesses_well_typed(sat.redeem()) {
        return RunOutcome::IllTypedWitness;
    }
    let (p, w) = match guard(|| sat.redeem().encode_to_vec()) {
        Ok(x) => x,
        Err(p) => return RunOutcome::ExecPanic(format!("encode: {p}")),
    };
    *fp = crate::report::fxhash(&p) ^ crate::report::fxhash(&w).rotate_left(17);
    decode_and_exec(p, w, built.cmr, env)
}

pub fn dummy_env() -> Env {
    simfony::dummy_env::dummy()
}

pub fn first_line(s: &str) -> String {
    s.lines().next().unwrap_or("").chars().take(200).collect()
}

thread_local! {
    pub static DUMMY: Env = dummy_env();
}

// ---------------------------------------------------------------------------------------------
// layout helpers (R3 <-> simplicity)

use crate::refmodel::{shape_node, Shape, ShapeNode, BV};
use simplicity::types::Final;

pub fn final_of(s: Shape, memo: &mut HashMap<Shape, Arc<Final>>) -> Arc<Final> {
    if let Some(f) = memo.get(&s) {
        return f.clone();
    }
    let f = match shape_node(s) {
        ShapeNode::Unit => Final::unit(),
        ShapeNode::Sum(a, b) => {
            let (fa, fb) = (final_of(a, memo), final_of(b, memo));
            Final::sum(fa, fb)
        }
        ShapeNode::Prod(a, b) => {
            let (fa, fb) = (final_of(a, memo), final_of(b, memo));
            Final::product(fa, fb)
        }
    };
    memo.insert(s, f.clone());
    f
}

/// Does the simplicity value have exactly the structure of the reference value tree?
pub fn bv_matches(bv: &BV, v: simplicity::ValueRef) -> bool {
    match bv {
        BV::Unit => v.is_unit(),
        BV::L(x) => v.as_left().map_or(false, |l| bv_matches(x, l)),
        BV::R(x) => v.as_right().map_or(false, |r| bv_matches(x, r)),
        BV::P(a, b) => v.as_product().map_or(false, |(l, r)| bv_matches(a, l) && bv_matches(b, r)),
    }
}

pub fn env_with(lock_time: u32, sequence: u32) -> Env {
    simfony::dummy_env::dummy_with(elements::LockTime::from_consensus(lock_time), elements::Sequence::from_consensus(sequence), false)
}

/// satisfy_with_env(Some(env)) -> redeem CMR check -> encode -> decode -> exec under `env`.
pub fn run_pruned(built: &Built, witness: WitnessValues, env: &Env) -> RunOutcome {
    let committed = run_pruned_on(&built.compiled, built.cmr, witness.clone(), env);
    if let Some((args, debug)) = &built.fresh {
        if built.fresh_pruned_runs.fetch_add(1, std::sync::atomic::Ordering::Relaxed) < FRESH_RUNS_PER_PROGRAM {
            let fresh = match guard(|| built.template.instantiate(args.clone(), *debug)) {
                Ok(Ok(c)) => run_pruned_on(&c, built.cmr, witness, env),
                Ok(Err(e)) => RunOutcome::SatisfyErr(format!("second instantiate failed: {e}")),
                Err(p) => RunOutcome::SatisfyPanic(format!("second instantiate: {p}")),
            };
            if fresh.class() != committed.class() {
                return RunOutcome::OrderDependent(format!("satisfy_with_env before any commit(): {fresh:?}; after commit(): {committed:?}"));
            }
        }
    }
    committed
}

pub fn run_pruned_on(compiled: &CompiledProgram, cmr: Cmr, witness: WitnessValues, env: &Env) -> RunOutcome {
    let mut fp = 0u64;
    run_pruned_inner(compiled, cmr, witness, env, &mut fp)
}

pub fn run_pruned_on_bytes(compiled: &CompiledProgram, cmr: Cmr, witness: WitnessValues, env: &Env) -> (RunOutcome, u64) {
    let mut fp = 0u64;
    let o = run_pruned_inner(compiled, cmr, witness, env, &mut fp);
    (o, fp)
}

fn run_pruned_inner(compiled: &CompiledProgram, cmr: Cmr, witness: WitnessValues, env: &Env, fp: &mut u64) -> RunOutcome {
    let built = OnRef { compiled, cmr };
    let sat = match guard(|| built.compiled.satisfy_with_env(witness, Some(env))) {
        Ok(Ok(s)) => s,
        Ok(Err(e)) => return RunOutcome::SatisfyErr(e),
        Err(p) => return RunOutcome::SatisfyPanic(p),
    };
    if sat.redeem().cmr() != built.cmr {
        return RunOutcome::CmrMismatch;
    }
    if !redeem_witnesses_well_typed(sat.redeem()) {
        return RunOutcome::IllTypedWitness;
    }
    let (p, w) = match guard(|| sat.redeem().encode_to_vec()) {
        Ok(x) => x,
        Err(p) => return RunOutcome::ExecPanic(format!("encode: {p}")),
    };
    *fp = crate::report::fxhash(&p) ^ crate::report::fxhash(&w).rotate_left(17);
    decode_and_exec(p, w, built.cmr, env)
}

/// Witness nodes whose principal type (as inferred by simplicity-lang alone from the encoded commitment)
/// differs from the type simfony assigned at compile time: "under-constrained" witnesses.
/// Returns (number of witness nodes, number under-constrained); None when the commitment cannot be re-read.
pub fn under_constrained_witnesses(compiled: &CompiledProgram) -> Option<(usize, usize)> {
    use simplicity::dag::{DagLike, InternalSharing};
    use simplicity::node::Inner;
    use simplicity::CommitNode;
    let commit = compiled.commit();
    let bytes = commit.encode_to_vec();
    let decoded = match CommitNode::<Elements>::decode(BitIter::from(bytes.into_iter())) {
        Ok(d) => d,
        Err(e) => {
            if std::env::var("VERIF_DEBUG").is_ok() {
                eprintln!("commit decode error: {e}");
            }
            return None;
        }
    };
    let declared: Vec<simplicity::Tmr> = commit
        .as_ref()
        .post_order_iter::<InternalSharing>()
        .filter(|i| matches!(i.node.inner(), Inner::Witness(_)))
        .map(|i| i.node.arrow().target.tmr())
        .collect();
    let principal: Vec<simplicity::Tmr> = decoded
        .as_ref()
        .post_order_iter::<InternalSharing>()
        .filter(|i| matches!(i.node.inner(), Inner::Witness(_)))
        .map(|i| i.node.arrow().target.tmr())
        .collect();
    if std::env::var("VERIF_DEBUG").is_ok() {
        for i in commit.as_ref().post_order_iter::<InternalSharing>().filter(|i| matches!(i.node.inner(), Inner::Witness(_))) {
            eprintln!("compile-time witness type: {}", i.node.arrow().target);
        }
        for i in decoded.as_ref().post_order_iter::<InternalSharing>().filter(|i| matches!(i.node.inner(), Inner::Witness(_))) {
            eprintln!("principal witness type: {}", i.node.arrow().target);
        }
    }
    if declared.len() != principal.len() {
        return Some((declared.len(), declared.len().max(principal.len())));
    }
    let n = declared.iter().zip(&principal).filter(|(a, b)| a != b).count();
    Some((declared.len(), n))
}
