//! `./check replay <file>`: re-run one recorded case against the real code, without explorer or generators.

use crate::drive::{self, RunOutcome};
use crate::lang::{parse_ty, Ty, Val};
use crate::refmodel::{self, resolve, AliasMap};
use serde_json::Value as J;
use simfony::parse::ParseFromStr;

fn parse_entry(e: &J) -> Option<(String, Val, Ty)> {
    let name = e.get("name")?.as_str()?.to_string();
    let ty = resolve(&parse_ty(e.get("ty")?.as_str()?)?, &AliasMap::new()).ok()?;
    let sv = simfony::Value::parse_from_str(e.get("val")?.as_str()?, &drive::sim_ty(&ty)).ok()?;
    Some((name, drive::from_sim_val(&sv), ty))
}

fn parse_map(j: Option<&J>) -> Option<Vec<(String, Val, Ty)>> {
    match j {
        None => Some(vec![]),
        Some(J::Array(a)) => a.iter().map(parse_entry).collect(),
        _ => None,
    }
}

fn env_of(j: &J) -> drive::Env {
    match j.get("env") {
        Some(J::Object(m)) => {
            let lock = m.get("lock_time").and_then(|x| x.as_u64()).unwrap_or(0) as u32;
            let seq = m.get("sequence").and_then(|x| x.as_u64()).unwrap_or(0xffff_ffff) as u32;
            drive::env_with(lock, seq)
        }
        _ => drive::dummy_env(),
    }
}

pub fn replay_file(path: &str) -> i32 {
    let Ok(text) = std::fs::read_to_string(path) else {
        eprintln!("cannot read {path}");
        return 2;
    };
    let Ok(j) = serde_json::from_str::<J>(&text) else {
        eprintln!("{path} is not JSON");
        return 2;
    };
    let prop = j.get("property").and_then(|x| x.as_str()).unwrap_or("?").to_string();
    let kind = j.get("kind").and_then(|x| x.as_str()).unwrap_or("");
    let expect = j.get("expect").and_then(|x| x.as_str()).unwrap_or("").to_string();
    let observed: String = match kind {
        "run" | "run_pruned" => {
            let program = j.get("program").and_then(|x| x.as_str()).unwrap_or("");
            let (Some(args), Some(wit)) = (parse_map(j.get("args")), parse_map(j.get("witness"))) else {
                eprintln!("cannot rebuild the argument / witness maps");
                return 2;
            };
            let debug = j.get("debug").and_then(|x| x.as_bool()).unwrap_or(false);
            let env = env_of(&j);
            match drive::build(program, drive::argument_map(&args), debug) {
                Err(e) => format!("not-compiled: {e:?}"),
 Ok(b) => {
                    println!("under-constrained witness nodes (witness nodes, under-constrained): {:?}", drive::guard(|| drive::under_constrained_witnesses(&b.compiled)));
                    // earlier satisfy_with_env calls on the same instance (same witness map, other environments)
                    if let Some(J::Array(hist)) = j.get("earlier_envs_on_this_instance") {
                        for h in hist {
                            let lock = h.get("lock_time").and_then(|x| x.as_u64()).unwrap_or(0) as u32;
                            let seq = h.get("sequence").and_then(|x| x.as_u64()).unwrap_or(0xffff_ffff) as u32;
                            let o = drive::run_pruned_on(&b.compiled, b.cmr, drive::witness_map(&wit), &drive::env_with(lock, seq));
                            println!("history step (lock_time {lock}, sequence {seq}): {}", o.class());
                        }
                    }
                    let out = if kind == "run" { drive::run(&b, drive::witness_map(&wit), &env) } else { drive::run_pruned(&b, drive::witness_map(&wit), &env) };
                    println!("outcome: {out:?}");
                    out.class().to_string()
                }
            }
        }
        "compile" => {
            let program = j.get("program").and_then(|x| x.as_str()).unwrap_or("");
            match drive::guard(|| simfony::TemplateProgram::new(program).map(|_| ())) {
                Ok(Ok(())) => "accept".into(),
                Ok(Err(e)) => {
                    println!("{e}");
                    "reject".into()
                }
                Err(p) => format!("panic: {p}"),
            }
        }
        "parse_value" => {
            let text = j.get("text").and_then(|x| x.as_str()).unwrap_or("");
            let ty = j.get("ty").and_then(|x| x.as_str()).and_then(parse_ty).and_then(|t| resolve(&t, &AliasMap::new()).ok());
            let Some(ty) = ty else { return 2 };
            match drive::guard(|| simfony::Value::parse_from_str(text, &drive::sim_ty(&ty))) {
                Ok(Ok(v)) => format!("Ok({v})"),
                Ok(Err(e)) => format!("Err({})", drive::first_line(&e.to_string())),
                Err(p) => format!("panic: {p}"),
            }
        }
        "value_roundtrip" | "layout_value" => {
            let Some((_, v, ty)) = parse_entry(&serde_json::json!({"name": "x", "ty": j.get("ty"), "val": j.get("val")})) else { return 2 };
            let sv = drive::sim_val(&v, &ty);
            if kind == "value_roundtrip" {
                let printed = sv.to_string();
                let back = simfony::Value::parse_from_str(&printed, &drive::sim_ty(&ty));
                let ok = back.as_ref().ok() == Some(&sv);
                format!("printed {printed:?}; round trip {}", if ok { "ok" } else { "MISMATCH" })
            } else {
                let st = simfony::value::StructuralValue::from(&sv);
                let ok = drive::bv_matches(&refmodel::encode(&v, &ty), st.as_ref().as_ref());
                format!("structure {}", if ok { "ok" } else { "MISMATCH" })
            }
        }
        "type_roundtrip" | "layout_type" => {
            let ty = j.get("ty").and_then(|x| x.as_str()).and_then(parse_ty).and_then(|t| resolve(&t, &AliasMap::new()).ok());
            let Some(ty) = ty else { return 2 };
            let sty = drive::sim_ty(&ty);
            if kind == "type_roundtrip" {
                let printed = sty.to_string();
                let ok = simfony::ResolvedType::parse_from_str(&printed).ok().as_ref() == Some(&sty);
                format!("printed {printed:?}; round trip {}", if ok { "ok" } else { "MISMATCH" })
            } else {
                let mut memo = std::collections::HashMap::new();
                let ok = drive::final_of(refmodel::layout(&ty), &mut memo).tmr() == simfony::types::StructuralType::from(&sty).as_ref().tmr();
                format!("layout {}", if ok { "ok" } else { "MISMATCH" })
            }
        }
        "text" => {
            // generic text entry-point case: {"entry": ..., "text": ...}
            let entry = j.get("entry").and_then(|x| x.as_str()).unwrap_or("");
            let text = j.get("text").and_then(|x| x.as_str()).unwrap_or("");
            let ty = j.get("ty").and_then(|x| x.as_str()).unwrap_or("");
            crate::props::c06::run_entry(entry, text, ty)
        }
        "u256_decimal" => {
            use std::str::FromStr;
            let hex = j.get("hex").and_then(|x| x.as_str()).unwrap_or("");
            let Some(b) = crate::big::Big::parse_radix(hex, 16) else { return 2 };
            let mut arr = [0u8; 32];
            arr.copy_from_slice(&b.to_bytes(32));
            let u = simfony::num::U256::from_byte_array(arr);
            let want = b.to_decimal();
            let printed = drive::guard(|| u.to_string());
            let parsed = drive::guard(|| simfony::num::U256::from_str(&want));
            if printed.as_deref() == Ok(want.as_str()) && matches!(parsed, Ok(Ok(v)) if v == u) {
                "print and parse ok".to_string()
            } else {
                format!("MISMATCH printed {printed:?}, numeral {want}")
            }
        }
        "witness_module" => {
            // {"text": module text, "expect": [value texts for A0, A1, ...]}: every constant must hold its own value
            use simfony::parse::ParseFromStr;
            let text = j.get("text").and_then(|x| x.as_str()).unwrap_or("");
            let want: Vec<String> = j.get("expect").and_then(|x| x.as_array()).map(|a| a.iter().filter_map(|x| x.as_str().map(|s| s.to_string())).collect()).unwrap_or_default();
            match drive::guard(|| simfony::WitnessValues::parse_from_str(text)) {
                Err(p) => format!("panic {p}"),
                Ok(Err(e)) => format!("MISMATCH module rejected: {}", drive::first_line(&e.to_string())),
                Ok(Ok(m)) => {
                    let mut bad = vec![];
                    for (i, w) in want.iter().enumerate() {
                        match m.get(&simfony::str::WitnessName::from_str_unchecked(&format!("A{i}"))) {
                            Some(got) => match simfony::Value::parse_from_str(w, got.ty()) {
                                Ok(v) if v == *got => {}
                                _ => bad.push(format!("A{i} = {got}, expected {w}")),
                            },
                            None => bad.push(format!("A{i} missing")),
                        }
                    }
                    if bad.is_empty() { "module values ok".to_string() } else { format!("MISMATCH {}", bad.join("; ")) }
                }
            }
        }
        "unwrap_symbol" => {
            // {"program", "call": unwrap_left|unwrap_right, "argument_type"}: the debug symbol of that call must carry the
            // argument's type (the value reconstruction half of the check is not repeated here)
            let program = j.get("program").and_then(|x| x.as_str()).unwrap_or("");
            let call = j.get("call").and_then(|x| x.as_str()).unwrap_or("");
            let strip = |s: &str| s.chars().filter(|c| !c.is_whitespace()).collect::<String>();
            let want = strip(j.get("argument_type").and_then(|x| x.as_str()).unwrap_or(""));
            match drive::build(program, simfony::Arguments::default(), true) {
                Err(o) => format!("MISMATCH not compiled: {o:?}"),
                Ok(built) => {
                    let symbols = built.compiled.debug_symbols();
                    let ms = drive::guard(|| crate::props::c14::markers(&built.compiled)).unwrap_or_default();
                    let mut seen = vec![];
                    for m in &ms {
                        if let Some(tc) = symbols.get(m) {
                            if crate::props::c14::kind_of(tc.name()) == call {
                                if let simfony::debug::TrackedCallName::UnwrapLeft(t) | simfony::debug::TrackedCallName::UnwrapRight(t) = tc.name() {
                                    seen.push(strip(&t.to_string()));
                                }
                            }
                        }
                    }
                    if !seen.is_empty() && seen.iter().all(|t| *t == want) { "symbol type ok".to_string() } else { format!("MISMATCH symbol types {seen:?}, argument type {want}") }
                }
            }
        }
        "error_message" => {
            let text = j.get("program").and_then(|x| x.as_str()).unwrap_or("");
            match crate::props::c20::verdict(text) {
                None => "accepted or no message".to_string(),
                Some(Ok(())) => "message ok".to_string(),
                Some(Err(why)) => format!("MISMATCH {why}"),
            }
        }
        other => {
            println!("replay kind {other:?}: no single-case runner; the file records the inputs:\n{}", serde_json::to_string_pretty(&j).unwrap_or_default());
            return 0;
        }
    };
    println!("property={prop} kind={kind} expect={expect:?} observed={observed:?}");
    let still_failing = if kind == "parse_value" {
        observed.starts_with("panic") || (expect.starts_with("Reject") && observed.starts_with("Ok")) || (expect.starts_with("Ok") && !observed.starts_with("Ok"))
    } else if expect.is_empty() { observed.contains("MISMATCH") || observed.starts_with("panic") } else { !observed.starts_with(&expect) };
    if still_failing {
        println!("VIOLATION property={prop} replay={path}");
        1
    } else {
        println!("case now behaves as expected");
        0
    }
}
