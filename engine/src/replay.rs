pub fn replay_file(_path: &str) -> i32 { 2 }
