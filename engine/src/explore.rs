//! Deterministic parallel enumeration helpers: the explored *set* is a pure function of (property, tier);
//! only the order in which worker threads pick items varies.

use crate::report::Report;
use std::sync::atomic::{AtomicUsize, Ordering};

pub fn jobs() -> usize {
    std::env::var("VERIF_JOBS").ok().and_then(|s| s.parse().ok()).unwrap_or_else(|| std::thread::available_parallelism().map(|n| n.get()).unwrap_or(4))
}

/// Run `f(i)` for every i in 0..n on `jobs()` threads (dynamic chunking). Stops early (recording a cap) when the
/// report's wall cap is exceeded.  Returns the number of items processed.
pub fn par_range(n: usize, rep: &Report, chunk: usize, f: impl Fn(usize) + Sync) -> usize {
    let next = AtomicUsize::new(0);
    let done = AtomicUsize::new(0);
    let chunk = chunk.max(1);
    // chunks are taken in a fixed scattered order (k -> k * stride mod m, stride coprime to m), so that a run
    // stopped by the wall cap has covered a spread of the enumeration rather than its head
    let m = n.div_ceil(chunk);
    let stride = scatter_stride(m);
    std::thread::scope(|s| {
        for _ in 0..jobs().min(n.max(1)) {
            std::thread::Builder::new()
                .stack_size(256 << 20)
                .spawn_scoped(s, || loop {
                    if rep.out_of_time() {
                        break;
                    }
                    let k = next.fetch_add(1, Ordering::Relaxed);
                    if k >= m {
                        break;
                    }
                    let start = ((k as u128 * stride as u128) % m as u128) as usize * chunk;
                    for i in start..(start + chunk).min(n) {
                        f(i);
                        done.fetch_add(1, Ordering::Relaxed);
                    }
                })
                .expect("spawn");
        }
    });
    let d = done.load(Ordering::Relaxed);
    if d < n {
        rep.cap(format!("stopped after {d} of {n} work items"));
        rep.set("order_of_work_items", serde_json::json!("chunks taken in the fixed scattered order k -> k*stride mod m; a capped run covers a spread of the enumeration"));
    }
    d
}

fn gcd(a: usize, b: usize) -> usize {
    if b == 0 {
        a
    } else {
        gcd(b, a % b)
    }
}

/// A stride near 0.618 * m that is coprime to m (1 for m <= 2).
pub fn scatter_stride(m: usize) -> usize {
    if m <= 2 {
        return 1;
    }
    let mut s = ((m as f64) * 0.618_033_988_75) as usize;
    s = s.max(1);
    while gcd(s, m) != 1 {
        s += 1;
    }
    s % m
}

pub fn par_for<T: Sync>(items: &[T], rep: &Report, chunk: usize, f: impl Fn(usize, &T) + Sync) -> usize {
    par_range(items.len(), rep, chunk, |i| f(i, &items[i]))
}

/// Cartesian product iterator over index vectors (odometer); calls f for each combination.
pub fn product(sizes: &[usize], mut f: impl FnMut(&[usize])) {
    if sizes.iter().any(|&s| s == 0) {
        return;
    }
    let mut idx = vec![0usize; sizes.len()];
    loop {
        f(&idx);
        let mut k = sizes.len();
        loop {
            if k == 0 {
                return;
            }
            k -= 1;
            idx[k] += 1;
            if idx[k] < sizes[k] {
                break;
            }
            idx[k] = 0;
        }
    }
}
