//! Hand-built "static rules" family: programs in which every item kind and static rule occurs
//! (aliases, functions calling functions, fold / for_while users, casts, witnesses, parameters).

use crate::lang::*;

fn u(n: u16) -> Ty {
    Ty::U(n)
}
fn alias(n: &str) -> Ty {
    Ty::Alias(n.to_string())
}
fn f(name: &str, params: Vec<(&str, Ty)>, ret: Option<Ty>, stmts: Vec<Stmt>, last: Option<Expr>) -> Item {
    Item::Fn(FnDef { name: name.into(), params: params.into_iter().map(|(n, t)| (n.to_string(), t)).collect(), ret, body: (stmts, last.map(Box::new)) })
}
fn s(e: Expr) -> Stmt {
    Stmt::Expr(e)
}
fn wit(n: &str) -> Expr {
    Expr::Witness(n.into())
}
fn par(n: &str) -> Expr {
    Expr::Param(n.into())
}

pub fn static_family() -> Vec<(String, Program)> {
    let mut out = vec![];
    // P1: aliases, functions calling functions, casts, parameter inside a function, match with binder
    out.push((
        "P1-aliases-calls-casts".to_string(),
        Program {
            items: vec![
                Item::Alias("Pair".into(), Ty::tup(vec![u(8), u(16)])),
                Item::Alias("MaybeByte".into(), Ty::opt(u(8))),
                f("first", vec![("p", alias("Pair"))], Some(u(8)), vec![let_(Pat::Tuple(vec![Pat::id("a"), Pat::id("b")]), alias("Pair"), var("p"))], Some(var("a"))),
                f("twice", vec![("x", u(8))], Some(u(16)), vec![], Some(cast(Ty::tup(vec![u(8), u(8)]), Expr::Tuple(vec![var("x"), var("x")])))),
                f("pick", vec![("a", u(8)), ("b", u(8)), ("c", u(16))], Some(u(16)), vec![let_(Pat::id("t"), u(8), var("b"))], Some(var("c"))),
                f("both", vec![("p", alias("Pair"))], Some(Ty::Bool), vec![], Some(jet("eq_16", vec![fcall("twice", vec![fcall("first", vec![var("p")])]), par("LIMIT")]))),
                f(
                    "main",
                    vec![],
                    None,
                    vec![
                        let_(Pat::id("p"), alias("Pair"), Expr::Tuple(vec![wit("A"), dec(513)])),
                        s(assert_(fcall("both", vec![var("p")]))),
                        s(assert_(jet("eq_16", vec![fcall("pick", vec![dec(1), dec(2), dec(513)]), dec(513)]))),
                        let_(Pat::id("m"), alias("MaybeByte"), Expr::Some(Box::new(fcall("first", vec![var("p")])))),
                        let_(Pat::id("v"), u(8), match_(var("m"), (MPat::None, dec(0)), (MPat::Some("x".into(), u(8)), var("x")))),
                        s(assert_(jet("eq_8", vec![var("v"), wit("B")]))),
                    ],
                    None,
                ),
            ],
        },
    ));
    // P2: fold and for_while users
    out.push((
        "P2-fold-forwhile".to_string(),
        Program {
            items: vec![
                f(
                    "sum",
                    vec![("e", u(8)), ("acc", u(16))],
                    Some(u(16)),
                    vec![let_(Pat::Tuple(vec![Pat::id("c"), Pat::id("t")]), Ty::tup(vec![Ty::Bool, u(16)]), jet("add_16", vec![jet("left_pad_low_8_16", vec![var("e")]), var("acc")]))],
                    Some(var("t")),
                ),
                // step functions that ignore their element / context / counter: they stay well-formed functions when a
                // parameter is dropped or added, so only the fold / for_while signature rule can reject the mutant
                f("keep", vec![("e", u(8)), ("acc", u(16))], Some(u(16)), vec![], Some(var("acc"))),
                f("first", vec![("acc", u(8)), ("ctx", u(8)), ("i", u(2))], Some(Ty::either(u(8), u(8))), vec![], Some(Expr::Left(Box::new(var("acc"))))),
                f(
                    "step",
                    vec![("acc", u(8)), ("lim", u(8)), ("i", u(2))],
                    Some(Ty::either(u(16), u(8))),
                    vec![],
                    Some(match_(
                        jet("eq_8", vec![var("acc"), var("lim")]),
                        (MPat::True, Expr::Left(Box::new(jet("left_pad_low_8_16", vec![var("acc")])))),
                        (
                            MPat::False,
                            block(vec![let_(Pat::Tuple(vec![Pat::id("c"), Pat::id("n")]), Ty::tup(vec![Ty::Bool, u(8)]), jet("increment_8", vec![var("acc")]))], Some(Expr::Right(Box::new(var("n"))))),
                        ),
                    )),
                ),
                f(
                    "main",
                    vec![],
                    None,
                    vec![
                        let_(Pat::id("l"), Ty::list(u(8), 4), Expr::List(vec![dec(1), dec(2), wit("X")])),
                        let_(Pat::id("t"), u(16), call(CallName::Fold("sum".into(), 4), vec![var("l"), dec(0)])),
                        s(assert_(jet("eq_16", vec![var("t"), wit("T")]))),
                        let_(Pat::id("r"), Ty::either(u(16), u(8)), call(CallName::ForWhile("step".into()), vec![par("START"), dec(2)])),
                        let_(Pat::id("q"), u(16), call(CallName::UnwrapLeft(u(8)), vec![var("r")])),
                        s(assert_(jet("eq_16", vec![var("q"), dec(2)]))),
                        let_(Pat::id("kept"), u(16), call(CallName::Fold("keep".into(), 4), vec![var("l"), dec(9)])),
                        s(assert_(jet("eq_16", vec![var("kept"), dec(9)]))),
                        let_(Pat::id("fst"), Ty::either(u(8), u(8)), call(CallName::ForWhile("first".into()), vec![dec(5), dec(6)])),
                        s(assert_(jet("eq_8", vec![call(CallName::UnwrapLeft(u(8)), vec![var("fst")]), dec(5)]))),
                    ],
                    None,
                ),
            ],
        },
    ));
    // P3: patterns, arrays, nested scopes and shadowing, is_none / unwrap / dbg / unwrap_left
    out.push((
        "P3-patterns-scopes".to_string(),
        Program {
            items: vec![f(
                "main",
                vec![],
                None,
                vec![
                    let_(Pat::id("arr"), Ty::arr(u(8), 3), Expr::Array(vec![dec(1), wit("W"), dec(3)])),
                    let_(Pat::Array(vec![Pat::id("a"), Pat::id("b"), Pat::id("c")]), Ty::arr(u(8), 3), var("arr")),
                    s(assert_(jet("eq_8", vec![var("b"), dec(2)]))),
                    let_(
                        Pat::Tuple(vec![Pat::Tuple(vec![Pat::id("x"), Pat::id("y")]), Pat::id("z")]),
                        Ty::tup(vec![Ty::tup(vec![u(8), Ty::Bool]), Ty::arr(u(1), 2)]),
                        Expr::Tuple(vec![Expr::Tuple(vec![var("a"), boolean(true)]), Expr::Array(vec![dec(0), dec(1)])]),
                    ),
                    let_(Pat::id("a"), u(16), block(vec![let_(Pat::id("a"), u(8), var("c"))], Some(jet("left_pad_low_8_16", vec![var("a")])))),
                    s(assert_(jet("eq_16", vec![var("a"), dec(3)]))),
                    let_(Pat::id("o"), Ty::opt(u(8)), Expr::Some(Box::new(var("x")))),
                    s(assert_(match_(call(CallName::IsNone(u(8)), vec![var("o")]), (MPat::True, boolean(false)), (MPat::False, var("y"))))),
                    let_(Pat::id("w"), u(8), call(CallName::Dbg, vec![call(CallName::Unwrap, vec![var("o")])])),
                    let_(Pat::id("e"), Ty::either(u(8), Ty::Bool), Expr::Left(Box::new(var("w")))),
                    let_(Pat::id("g"), u(8), call(CallName::UnwrapLeft(Ty::Bool), vec![var("e")])),
                    let_(Pat::Tuple(vec![]), Ty::unit(), Expr::Tuple(vec![])),
                    s(assert_(jet("eq_8", vec![var("g"), dec(1)]))),
                    // match arms whose bodies are stacked redundant wrappers: { (e) }, ({ e }), { { e } }, ((e))
                    let_(Pat::id("w1"), u(8), match_(var("y"), (MPat::True, block(vec![], Some(Expr::Paren(Box::new(var("g")))))), (MPat::False, Expr::Paren(Box::new(block(vec![], Some(var("w")))))))),
                    let_(Pat::id("w2"), u(8), match_(var("y"), (MPat::True, block(vec![], Some(block(vec![], Some(var("g")))))), (MPat::False, Expr::Paren(Box::new(Expr::Paren(Box::new(var("w")))))))),
                    s(assert_(jet("eq_8", vec![var("w1"), var("w2")]))),
                    let_(Pat::Array(vec![Pat::id("z0"), Pat::Ignore]), Ty::arr(u(1), 2), var("z")),
                    s(assert_(jet("eq_1", vec![var("z0"), dec(0)]))),
                ],
                None,
            )],
        },
    ));
    // P4: the same parameter twice, parameter in an uncalled function, items after main, modules
    out.push((
        "P4-params-items".to_string(),
        Program {
            items: vec![
                Item::Mod("witness".into(), vec![("A".into(), u(8), dec(1))]),
                Item::Alias("Byte".into(), u(8)),
                Item::Alias("Bytes".into(), Ty::arr(alias("Byte"), 2)),
                f("unused", vec![], Some(alias("Byte")), vec![], Some(par("K"))),
                f("pick", vec![("b", alias("Bytes"))], Some(u(8)), vec![let_(Pat::Array(vec![Pat::id("lo"), Pat::id("hi")]), Ty::arr(u(8), 2), var("b"))], Some(var("hi"))),
                f(
                    "main",
                    vec![],
                    Some(Ty::unit()),
                    vec![
                        let_(Pat::id("k"), alias("Byte"), par("K")),
                        let_(Pat::id("bs"), alias("Bytes"), Expr::Array(vec![var("k"), par("K")])),
                        s(assert_(jet("eq_8", vec![fcall("pick", vec![var("bs")]), wit("A")]))),
                        let_(Pat::id("h"), Ty::arr(u(8), 2), Expr::Lit(Lit::Hex("0102".into()))),
                        let_(Pat::id("n"), u(16), cast(Ty::arr(u(8), 2), var("h"))),
                        s(assert_(jet("eq_16", vec![var("n"), Expr::Lit(Lit::Hex("0102".into()))]))),
                        let_(Pat::id("bits"), u(4), Expr::Lit(Lit::Bin("1010".into()))),
                        let_(Pat::Tuple(vec![Pat::id("hi2"), Pat::id("lo2")]), Ty::tup(vec![u(2), u(2)]), cast(u(4), var("bits"))),
                    ],
                    None,
                ),
                f("after_main", vec![("x", Ty::Bool)], Some(Ty::Bool), vec![], Some(var("x"))),
                Item::Mod("param".into(), vec![]),
            ],
        },
    ));
    // P6: every builtin alias is usable as a type and means its documented definition
    {
        // (compile-only program: the witnesses are not anchored, the eq helpers of 64-byte arrays and Ctx8 would make
        // the program - and the number of its near misses - needlessly large)
        let mut stmts = vec![];
        for (i, name) in crate::refmodel::BUILTIN_ALIASES.iter().enumerate() {
            let def = crate::refmodel::builtin_alias(name).expect("builtin alias");
            // let a<i>: <Alias> = <def>::into(witness::A<i>);  a cast between identical layouts: accepted iff the alias resolves
            stmts.push(let_(Pat::Id(format!("a{i}")), alias(name), cast(def.clone(), Expr::Witness(format!("A{i}")))));
            stmts.push(let_(Pat::Id(format!("b{i}")), def.clone(), var(&format!("a{i}"))));
        }
        let items = vec![Item::Fn(FnDef { name: "main".into(), params: vec![], ret: None, body: (stmts, None) })];
        out.push(("P6-builtin-aliases".to_string(), Program { items }));
    }
    // P5: match scoping: binders of one arm are not visible in the other arm; an outer variable with the name of
    // the left binder (at another type) is what the right arm sees
    {
        let e_ty = Ty::either(u(8), u(16));
        let arms = |right_uses: &str| {
            match_(
                var("e"),
                (MPat::Left("a".into(), u(8)), jet("left_pad_low_8_16", vec![var("a")])),
                (MPat::Right("b".into(), u(16)), jet("xor_16", vec![var("b"), var(right_uses)])),
            )
        };
        out.push((
            "P5-match-scopes".to_string(),
            Program {
                items: vec![
                    f("pick", vec![("e", e_ty.clone()), ("k", u(16))], Some(u(16)), vec![], Some(arms("k"))),
                    f(
                        "main",
                        vec![],
                        None,
                        vec![
                            let_(Pat::id("a"), u(16), dec(7)),
                            let_(Pat::id("e"), e_ty.clone(), wit("E")),
                            let_(Pat::id("r"), u(16), arms("a")),
                            let_(Pat::id("o"), Ty::opt(u(8)), wit("O")),
                            let_(Pat::id("sv"), u(8), match_(var("o"), (MPat::None, dec(1)), (MPat::Some("x".into(), u(8)), var("x")))),
                            let_(Pat::id("tv"), u(8), match_(var("o"), (MPat::Some("y".into(), u(8)), var("y")), (MPat::None, var("sv")))),
                            s(assert_(jet("eq_16", vec![var("r"), fcall("pick", vec![var("e"), var("a")])]))),
                            s(assert_(jet("eq_8", vec![var("sv"), var("tv")]))),
                            let_(Pat::id("bb"), Ty::Bool, wit("B")),
                            let_(Pat::id("q"), u(8), match_(var("bb"), (MPat::True, var("sv")), (MPat::False, var("tv")))),
                            s(assert_(jet("eq_8", vec![var("q"), var("sv")]))),
                        ],
                        None,
                    ),
                ],
            },
        ));
    }
    // P7: wide signatures - functions with 4, 5, 12 and 33 parameters of cycling widths, every parameter used
    {
        let widths = [8u16, 16, 32, 64];
        let mut items = vec![];
        let mut main_stmts = vec![];
        for &n in &[4usize, 5, 12, 33] {
            let params: Vec<(String, Ty)> = (0..n).map(|i| (format!("operand_{i}"), u(widths[i % 4]))).collect();
            // fn wide_n(..) -> u64 { xor of all u64-typed operands after checking every other one against its constant }
            let mut stmts = vec![];
            for (i, (pn, pt)) in params.iter().enumerate() {
                if let Ty::U(w) = pt {
                    stmts.push(s(assert_(jet(&format!("eq_{w}"), vec![var(pn), dec((i as u128 * 37 + 5) % 251)]))));
                }
            }
            let last = var(&params[n - 1].0);
            items.push(Item::Fn(FnDef { name: format!("wide_{n}"), params: params.clone(), ret: Some(params[n - 1].1.clone()), body: (stmts, Some(Box::new(last))) }));
            let args: Vec<Expr> = (0..n).map(|i| dec((i as u128 * 37 + 5) % 251)).collect();
            let Ty::U(w) = params[n - 1].1.clone() else { unreachable!() };
            main_stmts.push(s(assert_(jet(&format!("eq_{w}"), vec![fcall(&format!("wide_{n}"), args), dec(((n - 1) as u128 * 37 + 5) % 251)]))));
        }
        items.push(Item::Fn(FnDef { name: "main".into(), params: vec![], ret: None, body: (main_stmts, None) }));
        out.push(("P7-wide-signatures".to_string(), Program { items }));
    }
    // P8: deep environments - 70 live bindings in main, all read back; a parameter read below 70 local bindings
    {
        let n = 70usize;
        let mut stmts: Vec<Stmt> = (0..n).map(|i| let_(Pat::Id(format!("v{i}")), u(8), if i == 0 { wit("W") } else { dec((i as u128 * 7 + 3) % 256) })).collect();
        for i in 1..n {
            stmts.push(s(assert_(jet("eq_8", vec![var(&format!("v{i}")), dec((i as u128 * 7 + 3) % 256)]))));
        }
        stmts.push(s(assert_(jet("eq_8", vec![var("v0"), fcall("below", vec![var("v0")])]))));
        let mut fstmts: Vec<Stmt> = (0..n).map(|i| let_(Pat::Id(format!("l{i}")), u(8), dec((i as u128 * 3 + 1) % 256))).collect();
        fstmts.push(s(assert_(jet("eq_8", vec![var("l0"), dec(1)]))));
        out.push((
            "P8-deep-environments".to_string(),
            Program {
                items: vec![
                    Item::Fn(FnDef { name: "below".into(), params: vec![("first".into(), u(8))], ret: Some(u(8)), body: (fstmts, Some(Box::new(var("first")))) }),
                    Item::Fn(FnDef { name: "main".into(), params: vec![], ret: None, body: (stmts, None) }),
                ],
            },
        ));
    }
    // P9: one name bound at three types in three enclosing scopes, used two scope levels below each binding
    out.push((
        "P9-shadow-depth".to_string(),
        Program {
            items: vec![
                f(
                    "widen",
                    vec![("x", u(8)), ("keep", Ty::Bool)],
                    Some(u(16)),
                    vec![let_(Pat::id("x"), u(16), jet("left_pad_low_8_16", vec![var("x")]))],
                    Some(match_(var("keep"), (MPat::True, block(vec![], Some(var("x")))), (MPat::False, dec(0)))),
                ),
                f(
                    "main",
                    vec![],
                    None,
                    vec![
                        // a match whose arms are plain expressions comes first: nothing of it may reach the blocks below
                        let_(Pat::id("m"), u(8), match_(wit("M"), (MPat::True, dec(1)), (MPat::False, dec(0)))),
                        let_(Pat::id("a"), u(8), dec(1)),
                        s(block(
                            vec![
                                let_(Pat::id("a"), u(16), dec(2)),
                                s(block(
                                    vec![
                                        s(assert_(jet("eq_16", vec![var("a"), dec(2)]))),
                                        s(block(vec![let_(Pat::id("a"), u(32), dec(3)), s(block(vec![s(assert_(jet("eq_32", vec![var("a"), dec(3)])))], None))], None)),
                                        s(assert_(jet("eq_16", vec![var("a"), dec(2)]))),
                                    ],
                                    None,
                                )),
                            ],
                            None,
                        )),
                        s(assert_(jet("eq_8", vec![var("a"), dec(1)]))),
                        s(assert_(jet("eq_16", vec![fcall("widen", vec![dec(7), wit("K")]), dec(7)]))),
                    ],
                    None,
                ),
            ],
        },
    ));
    out
}

/// Bases whose near misses are numerous (wide / deep programs): callers may stride over their mutants in the quick tier.
pub fn is_large(name: &str) -> bool {
    name.starts_with("P7-") || name.starts_with("P8-")
}
