//! Harness-side abstract syntax of Simfony (independent of /repo/src) plus renderers.
//! The AST is *untyped syntax with annotations*: it can represent ill-typed programs (near misses).

use crate::big::Big;
use std::fmt::Write as _;

#[derive(Clone, Debug, PartialEq, Eq, Hash, PartialOrd, Ord)]
pub enum Ty {
    Bool,
    U(u16),
    Tuple(Vec<Ty>),
    Array(Box<Ty>, usize),
    List(Box<Ty>, usize),
    Option(Box<Ty>),
    Either(Box<Ty>, Box<Ty>),
    Alias(String),
}

impl Ty {
    pub fn unit() -> Ty {
        Ty::Tuple(vec![])
    }
    pub fn opt(t: Ty) -> Ty {
        Ty::Option(Box::new(t))
    }
    pub fn either(a: Ty, b: Ty) -> Ty {
        Ty::Either(Box::new(a), Box::new(b))
    }
    pub fn arr(t: Ty, n: usize) -> Ty {
        Ty::Array(Box::new(t), n)
    }
    pub fn list(t: Ty, n: usize) -> Ty {
        Ty::List(Box::new(t), n)
    }
    pub fn tup(v: Vec<Ty>) -> Ty {
        Ty::Tuple(v)
    }
    pub fn is_unit(&self) -> bool {
        matches!(self, Ty::Tuple(v) if v.is_empty())
    }
    pub fn render(&self) -> String {
        let mut s = String::new();
        self.render_into(&mut s);
        s
    }
    pub fn render_into(&self, s: &mut String) {
        match self {
            Ty::Bool => s.push_str("bool"),
            Ty::U(n) => {
                let _ = write!(s, "u{n}");
            }
            Ty::Tuple(v) => {
                s.push('(');
                for (i, t) in v.iter().enumerate() {
                    if i > 0 {
                        s.push_str(", ");
                    }
                    t.render_into(s);
                }
                if v.len() == 1 {
                    s.push(',');
                }
                s.push(')');
            }
            Ty::Array(t, n) => {
                s.push('[');
                t.render_into(s);
                let _ = write!(s, "; {n}]");
            }
            Ty::List(t, n) => {
                s.push_str("List<");
                t.render_into(s);
                let _ = write!(s, ", {n}>");
            }
            Ty::Option(t) => {
                s.push_str("Option<");
                t.render_into(s);
                s.push('>');
            }
            Ty::Either(a, b) => {
                s.push_str("Either<");
                a.render_into(s);
                s.push_str(", ");
                b.render_into(s);
                s.push('>');
            }
            Ty::Alias(n) => s.push_str(n),
        }
    }
    /// identifier-safe mangling, used for helper function names
    pub fn mangle(&self) -> String {
        match self {
            Ty::Bool => "bool".into(),
            Ty::U(n) => format!("u{n}"),
            Ty::Tuple(v) => {
                let mut s = format!("t{}", v.len());
                for t in v {
                    s.push('_');
                    s.push_str(&t.mangle());
                }
                s.push('e');
                s
            }
            Ty::Array(t, n) => format!("a{}_{}e", n, t.mangle()),
            Ty::List(t, n) => format!("l{}_{}e", n, t.mangle()),
            Ty::Option(t) => format!("o_{}e", t.mangle()),
            Ty::Either(a, b) => format!("s_{}_{}e", a.mangle(), b.mangle()),
            Ty::Alias(n) => format!("n{n}"),
        }
    }
    pub fn depth(&self) -> usize {
        match self {
            Ty::Bool | Ty::U(_) | Ty::Alias(_) => 0,
            Ty::Tuple(v) => 1 + v.iter().map(|t| t.depth()).max().unwrap_or(0),
            Ty::Array(t, _) | Ty::List(t, _) | Ty::Option(t) => 1 + t.depth(),
            Ty::Either(a, b) => 1 + a.depth().max(b.depth()),
        }
    }
}

/// Harness value. Not self-typed (None/Left/Right need a type), always used together with a `Ty`.
#[derive(Clone, Debug, PartialEq, Eq, Hash, PartialOrd, Ord)]
pub enum Val {
    Bool(bool),
    U(u16, Big),
    Tuple(Vec<Val>),
    Array(Vec<Val>),
    List(Vec<Val>),
    Left(Box<Val>),
    Right(Box<Val>),
    None,
    Some(Box<Val>),
}

impl Val {
    pub fn unit() -> Val {
        Val::Tuple(vec![])
    }
    pub fn u(w: u16, v: u128) -> Val {
        Val::U(w, Big::from_u128(v))
    }
    pub fn as_u128(&self) -> Option<u128> {
        match self {
            Val::U(_, b) => b.to_u128(),
            _ => None,
        }
    }
    pub fn as_bool(&self) -> Option<bool> {
        match self {
            Val::Bool(b) => Some(*b),
            _ => None,
        }
    }
}

#[derive(Clone, Debug, PartialEq, Eq, Hash)]
pub enum Lit {
    Bool(bool),
    /// decimal literal text, as written (may contain `_`)
    Dec(String),
    /// binary literal digits without `0b`
    Bin(String),
    /// hex literal digits without `0x`
    Hex(String),
}

#[derive(Clone, Debug, PartialEq, Eq, Hash)]
pub enum Pat {
    Id(String),
    Ignore,
    Tuple(Vec<Pat>),
    Array(Vec<Pat>),
}

impl Pat {
    pub fn id(s: &str) -> Pat {
        Pat::Id(s.to_string())
    }
    pub fn names(&self, out: &mut Vec<String>) {
        match self {
            Pat::Id(n) => out.push(n.clone()),
            Pat::Ignore => {}
            Pat::Tuple(v) | Pat::Array(v) => v.iter().for_each(|p| p.names(out)),
        }
    }
    pub fn render(&self) -> String {
        match self {
            Pat::Id(n) => n.clone(),
            Pat::Ignore => "_".into(),
            Pat::Tuple(v) => {
                let inner: Vec<String> = v.iter().map(|p| p.render()).collect();
                if v.len() == 1 {
                    format!("({},)", inner[0])
                } else {
                    format!("({})", inner.join(", "))
                }
            }
            Pat::Array(v) => {
                let inner: Vec<String> = v.iter().map(|p| p.render()).collect();
                format!("[{}]", inner.join(", "))
            }
        }
    }
}

#[derive(Clone, Debug, PartialEq, Eq, Hash)]
pub enum MPat {
    False,
    True,
    None,
    Some(String, Ty),
    Left(String, Ty),
    Right(String, Ty),
}

#[derive(Clone, Debug, PartialEq, Eq, Hash)]
pub struct Arm {
    pub pat: MPat,
    pub body: Expr,
}

#[derive(Clone, Debug, PartialEq, Eq, Hash)]
pub enum CallName {
    Jet(String),
    UnwrapLeft(Ty),
    UnwrapRight(Ty),
    IsNone(Ty),
    Unwrap,
    Assert,
    Panic,
    Dbg,
    Cast(Ty),
    Fn(String),
    Fold(String, usize),
    ForWhile(String),
}

#[derive(Clone, Debug, PartialEq, Eq, Hash)]
pub enum Expr {
    Lit(Lit),
    Var(String),
    Witness(String),
    Param(String),
    Paren(Box<Expr>),
    Tuple(Vec<Expr>),
    Array(Vec<Expr>),
    List(Vec<Expr>),
    Left(Box<Expr>),
    Right(Box<Expr>),
    None,
    Some(Box<Expr>),
    Block(Vec<Stmt>, Option<Box<Expr>>),
    Match(Box<Expr>, Box<Arm>, Box<Arm>),
    Call(CallName, Vec<Expr>),
}

#[derive(Clone, Debug, PartialEq, Eq, Hash)]
pub enum Stmt {
    Let(Pat, Ty, Expr),
    Expr(Expr),
}

#[derive(Clone, Debug, PartialEq, Eq, Hash)]
pub struct FnDef {
    pub name: String,
    pub params: Vec<(String, Ty)>,
    pub ret: Option<Ty>,
    /// body statements and optional final expression (always rendered as a block)
    pub body: (Vec<Stmt>, Option<Box<Expr>>),
}

#[derive(Clone, Debug, PartialEq, Eq, Hash)]
pub enum Item {
    Alias(String, Ty),
    Fn(FnDef),
    /// `mod witness {}` / `mod param {}` with const assignments (ignored by the compiler)
    Mod(String, Vec<(String, Ty, Expr)>),
}

#[derive(Clone, Debug, PartialEq, Eq, Hash, Default)]
pub struct Program {
    pub items: Vec<Item>,
}

// ---------------------------------------------------------------------------------------------
// convenience constructors

pub fn var(s: &str) -> Expr {
    Expr::Var(s.to_string())
}
pub fn dec(v: u128) -> Expr {
    Expr::Lit(Lit::Dec(v.to_string()))
}
pub fn boolean(b: bool) -> Expr {
    Expr::Lit(Lit::Bool(b))
}
pub fn call(n: CallName, args: Vec<Expr>) -> Expr {
    Expr::Call(n, args)
}
pub fn jet(n: &str, args: Vec<Expr>) -> Expr {
    Expr::Call(CallName::Jet(n.to_string()), args)
}
pub fn fcall(n: &str, args: Vec<Expr>) -> Expr {
    Expr::Call(CallName::Fn(n.to_string()), args)
}
pub fn assert_(e: Expr) -> Expr {
    Expr::Call(CallName::Assert, vec![e])
}
pub fn cast(from: Ty, e: Expr) -> Expr {
    Expr::Call(CallName::Cast(from), vec![e])
}
pub fn block(stmts: Vec<Stmt>, last: Option<Expr>) -> Expr {
    Expr::Block(stmts, last.map(Box::new))
}
pub fn let_(p: Pat, t: Ty, e: Expr) -> Stmt {
    Stmt::Let(p, t, e)
}
pub fn match_(s: Expr, a: (MPat, Expr), b: (MPat, Expr)) -> Expr {
    Expr::Match(
        Box::new(s),
        Box::new(Arm { pat: a.0, body: a.1 }),
        Box::new(Arm { pat: b.0, body: b.1 }),
    )
}

// ---------------------------------------------------------------------------------------------
// Rendering to tokens.  A token is a string that must not be split; adjacent tokens may be separated
// by arbitrary whitespace/comments (pest inserts implicit WHITESPACE/COMMENT between `~`).

/// Range of token indices of a tracked call (for C14): [start, end) in the token stream.
#[derive(Clone, Debug)]
pub struct CallSite {
    pub kind: &'static str,
    /// name of the function the call occurs in
    pub in_fn: String,
    pub tok_start: usize,
    pub tok_end: usize,
}

#[derive(Clone, Debug, Default)]
pub struct RenderOpts {
    /// add a trailing comma in arrays / lists / array patterns where the grammar allows one
    pub trailing_commas: bool,
    /// write `-> ()` on functions without a result
    pub explicit_unit_ret: bool,
    /// render match arm bodies as blocks `{ e }`
    pub arms_as_blocks: bool,
    /// wrap every argument of calls in an extra pair of parentheses
    pub paren_args: bool,
}

#[derive(Default)]
pub struct Tokens {
    pub toks: Vec<String>,
    pub current_fn: String,
    pub calls: Vec<CallSite>,
    pub opts: RenderOpts,
}

impl Tokens {
    fn t(&mut self, s: &str) {
        self.toks.push(s.to_string());
    }
    fn ty(&mut self, ty: &Ty) {
        match ty {
            Ty::Bool => self.t("bool"),
            Ty::U(n) => self.t(&format!("u{n}")),
            Ty::Tuple(v) => {
                self.t("(");
                for (i, t) in v.iter().enumerate() {
                    if i > 0 {
                        self.t(",");
                    }
                    self.ty(t);
                }
                if v.len() == 1 {
                    self.t(",");
                }
                self.t(")");
            }
            Ty::Array(t, n) => {
                self.t("[");
                self.ty(t);
                self.t(";");
                self.t(&n.to_string());
                self.t("]");
            }
            Ty::List(t, n) => {
                self.t("List<");
                self.ty(t);
                self.t(",");
                self.t(&n.to_string());
                self.t(">");
            }
            Ty::Option(t) => {
                self.t("Option<");
                self.ty(t);
                self.t(">");
            }
            Ty::Either(a, b) => {
                self.t("Either<");
                self.ty(a);
                self.t(",");
                self.ty(b);
                self.t(">");
            }
            Ty::Alias(n) => self.t(n),
        }
    }
    fn pat(&mut self, p: &Pat) {
        match p {
            Pat::Id(n) => self.t(n),
            Pat::Ignore => self.t("_"),
            Pat::Tuple(v) => {
                self.t("(");
                for (i, q) in v.iter().enumerate() {
                    if i > 0 {
                        self.t(",");
                    }
                    self.pat(q);
                }
                if v.len() == 1 {
                    self.t(",");
                }
                self.t(")");
            }
            Pat::Array(v) => {
                self.t("[");
                for (i, q) in v.iter().enumerate() {
                    if i > 0 {
                        self.t(",");
                    }
                    self.pat(q);
                }
                if self.opts.trailing_commas && !v.is_empty() {
                    self.t(",");
                }
                self.t("]");
            }
        }
    }
    fn seq(&mut self, open: &str, v: &[Expr], close: &str, allow_trailing: bool) {
        self.t(open);
        for (i, e) in v.iter().enumerate() {
            if i > 0 {
                self.t(",");
            }
            self.expr(e);
        }
        if allow_trailing && self.opts.trailing_commas && !v.is_empty() {
            self.t(",");
        }
        self.t(close);
    }
    fn blockbody(&mut self, stmts: &[Stmt], last: &Option<Box<Expr>>) {
        self.t("{");
        for s in stmts {
            match s {
                Stmt::Let(p, t, e) => {
                    self.t("let");
                    self.pat(p);
                    self.t(":");
                    self.ty(t);
                    self.t("=");
                    self.expr(e);
                }
                Stmt::Expr(e) => self.expr(e),
            }
            self.t(";");
        }
        if let Some(e) = last {
            self.expr(e);
        }
        self.t("}");
    }
    fn mpat(&mut self, p: &MPat) {
        match p {
            MPat::False => self.t("false"),
            MPat::True => self.t("true"),
            MPat::None => self.t("None"),
            MPat::Some(n, t) => {
                self.t("Some(");
                self.t(n);
                self.t(":");
                self.ty(t);
                self.t(")");
            }
            MPat::Left(n, t) => {
                self.t("Left(");
                self.t(n);
                self.t(":");
                self.ty(t);
                self.t(")");
            }
            MPat::Right(n, t) => {
                self.t("Right(");
                self.t(n);
                self.t(":");
                self.ty(t);
                self.t(")");
            }
        }
    }
    fn arm(&mut self, a: &Arm) {
        self.mpat(&a.pat);
        self.t("=>");
        match &a.body {
            Expr::Block(s, l) => {
                self.blockbody(s, l);
                self.t(",");
            }
            e if self.opts.arms_as_blocks => {
                self.t("{");
                self.expr(e);
                self.t("}");
                self.t(",");
            }
            e => {
                self.expr(e);
                self.t(",");
            }
        }
    }
    pub fn expr(&mut self, e: &Expr) {
        match e {
            Expr::Lit(Lit::Bool(b)) => self.t(if *b { "true" } else { "false" }),
            Expr::Lit(Lit::Dec(s)) => self.t(s),
            Expr::Lit(Lit::Bin(s)) => self.t(&format!("0b{s}")),
            Expr::Lit(Lit::Hex(s)) => self.t(&format!("0x{s}")),
            Expr::Var(n) => self.t(n),
            Expr::Witness(n) => self.t(&format!("witness::{n}")),
            Expr::Param(n) => self.t(&format!("param::{n}")),
            Expr::Paren(e) => {
                self.t("(");
                self.expr(e);
                self.t(")");
            }
            Expr::Tuple(v) => {
                self.t("(");
                for (i, x) in v.iter().enumerate() {
                    if i > 0 {
                        self.t(",");
                    }
                    self.expr(x);
                }
                if v.len() == 1 {
                    self.t(",");
                }
                self.t(")");
            }
            Expr::Array(v) => self.seq("[", v, "]", true),
            Expr::List(v) => self.seq("list![", v, "]", true),
            Expr::Left(x) => {
                self.t("Left(");
                self.expr(x);
                self.t(")");
            }
            Expr::Right(x) => {
                self.t("Right(");
                self.expr(x);
                self.t(")");
            }
            Expr::None => self.t("None"),
            Expr::Some(x) => {
                self.t("Some(");
                self.expr(x);
                self.t(")");
            }
            Expr::Block(s, l) => self.blockbody(s, l),
            Expr::Match(s, a, b) => {
                self.t("match");
                self.expr(s);
                self.t("{");
                self.arm(a);
                self.arm(b);
                self.t("}");
            }
            Expr::Call(name, args) => {
                let start = self.toks.len();
                let kind: Option<&'static str> = match name {
                    CallName::Jet(n) => {
                        self.t(&format!("jet::{n}"));
                        Some("jet")
                    }
                    CallName::UnwrapLeft(t) => {
                        self.t("unwrap_left::<");
                        self.ty(t);
                        self.t(">");
                        Some("unwrap_left")
                    }
                    CallName::UnwrapRight(t) => {
                        self.t("unwrap_right::<");
                        self.ty(t);
                        self.t(">");
                        Some("unwrap_right")
                    }
                    CallName::IsNone(t) => {
                        self.t("is_none::<");
                        self.ty(t);
                        self.t(">");
                        None
                    }
                    CallName::Unwrap => {
                        self.t("unwrap");
                        Some("unwrap")
                    }
                    CallName::Assert => {
                        self.t("assert!");
                        Some("assert")
                    }
                    CallName::Panic => {
                        self.t("panic!");
                        Some("panic")
                    }
                    CallName::Dbg => {
                        self.t("dbg!");
                        Some("dbg")
                    }
                    CallName::Cast(t) => {
                        self.t("<");
                        self.ty(t);
                        self.t(">::into");
                        None
                    }
                    CallName::Fn(n) => {
                        self.t(n);
                        None
                    }
                    CallName::Fold(f, n) => {
                        self.t("fold::<");
                        self.t(f);
                        self.t(",");
                        self.t(&n.to_string());
                        self.t(">");
                        None
                    }
                    CallName::ForWhile(f) => {
                        self.t("for_while::<");
                        self.t(f);
                        self.t(">");
                        None
                    }
                };
                self.t("(");
                for (i, a) in args.iter().enumerate() {
                    if i > 0 {
                        self.t(",");
                    }
                    if self.opts.paren_args {
                        self.t("(");
                        self.expr(a);
                        self.t(")");
                    } else {
                        self.expr(a);
                    }
                }
                self.t(")");
                if let Some(kind) = kind {
                    self.calls.push(CallSite { kind, in_fn: self.current_fn.clone(), tok_start: start, tok_end: self.toks.len() });
                }
            }
        }
    }
    pub fn item(&mut self, it: &Item) {
        match it {
            Item::Alias(n, t) => {
                self.t("type");
                self.t(n);
                self.t("=");
                self.ty(t);
                self.t(";");
            }
            Item::Fn(f) => {
                self.current_fn = f.name.clone();
                self.t("fn");
                self.t(&f.name);
                self.t("(");
                for (i, (n, t)) in f.params.iter().enumerate() {
                    if i > 0 {
                        self.t(",");
                    }
                    self.t(n);
                    self.t(":");
                    self.ty(t);
                }
                self.t(")");
                match &f.ret {
                    Some(t) => {
                        self.t("->");
                        self.ty(t);
                    }
                    None if self.opts.explicit_unit_ret && f.name != "main" => {
                        self.t("->");
                        self.t("(");
                        self.t(")");
                    }
                    None => {}
                }
                self.blockbody(&f.body.0, &f.body.1);
            }
            Item::Mod(name, assigns) => {
                self.t("mod");
                self.t(name);
                self.t("{");
                for (n, t, e) in assigns {
                    self.t("const");
                    self.t(n);
                    self.t(":");
                    self.ty(t);
                    self.t("=");
                    self.expr(e);
                    self.t(";");
                }
                self.t("}");
            }
        }
    }
    pub fn program(p: &Program, opts: RenderOpts) -> Tokens {
        let mut t = Tokens { opts, ..Default::default() };
        for it in &p.items {
            t.item(it);
        }
        t
    }
}

/// How tokens are joined into text.
#[derive(Clone, Copy, Debug, PartialEq, Eq)]
pub enum Layout {
    /// readable: newline after `;` `{` `}`; spaces elsewhere
    Pretty,
    /// everything on one line, single spaces
    OneLine,
    /// one token per line (LF)
    TokenPerLine,
    /// one token per line (CRLF)
    TokenPerLineCrlf,
    /// tabs between tokens, newline after `;`
    Tabs,
    /// a block comment between every pair of tokens
    Comments,
    /// pretty with CRLF line ends
    PrettyCrlf,
    /// a line comment (with non-ASCII characters) + newline between tokens
    LineComments,
    /// a block comment full of 2-, 3- and 4-byte characters between every pair of tokens, newline only after `;`
    /// (so that whatever an error points at is preceded by multi-byte characters on the same line)
    NonAsciiComments,
    /// a lone carriage return between tokens (whitespace for the grammar, not a line terminator)
    CrOnly,
}

pub const ALL_LAYOUTS: [Layout; 10] = [
    Layout::Pretty,
    Layout::OneLine,
    Layout::TokenPerLine,
    Layout::TokenPerLineCrlf,
    Layout::Tabs,
    Layout::Comments,
    Layout::PrettyCrlf,
    Layout::LineComments,
    Layout::NonAsciiComments,
    Layout::CrOnly,
];

/// Join tokens; also returns the byte offset range of every token.
pub fn join(toks: &[String], layout: Layout) -> (String, Vec<(usize, usize)>) {
    let mut s = String::new();
    let mut ranges = Vec::with_capacity(toks.len());
    let mut depth = 0usize;
    let mut brackets = 0usize;
    for (i, t) in toks.iter().enumerate() {
        if i > 0 {
            let prev = toks[i - 1].as_str();
            match layout {
                Layout::Pretty | Layout::PrettyCrlf => {
                    let nl = if layout == Layout::Pretty { "\n" } else { "\r\n" };
                    if (prev == ";" && brackets == 0) || prev == "{" || (prev == "}" && t != "," && t != ";" && t != ")") {
                        s.push_str(nl);
                        let d = if t == "}" { depth.saturating_sub(1) } else { depth };
                        for _ in 0..d {
                            s.push_str("    ");
                        }
                    } else if t == "," || t == ";" || t == ")" || prev == "(" || prev == "[" || t == "]" || prev.ends_with('<') || prev.ends_with('(') || prev.ends_with('[') || t == ">" || t == ":" {
                        // tight
                    } else {
                        s.push(' ');
                    }
                }
                Layout::OneLine => s.push(' '),
                Layout::TokenPerLine => s.push('\n'),
                Layout::TokenPerLineCrlf => s.push_str("\r\n"),
                Layout::Tabs => {
                    if prev == ";" {
                        s.push('\n');
                    } else {
                        s.push('\t');
                    }
                }
                Layout::Comments => s.push_str(" /* c; } */ "),
                Layout::LineComments => s.push_str(" // é嗨 ; }\n"),
                Layout::CrOnly => s.push('\r'),
                Layout::NonAsciiComments => {
                    if prev == ";" {
                        s.push('\n');
                    }
                    s.push_str(" /* öö語🦀ö語ö */ ");
                }
            }
        }
        if t == "[" || t == "list![" {
            brackets += 1;
        } else if t == "]" {
            brackets = brackets.saturating_sub(1);
        }
        if t == "{" {
            depth += 1;
        } else if t == "}" {
            depth = depth.saturating_sub(1);
        }
        let start = s.len();
        s.push_str(t);
        ranges.push((start, s.len()));
    }
    if matches!(layout, Layout::Pretty | Layout::Tabs) {
        s.push('\n');
    } else if layout == Layout::PrettyCrlf {
        s.push_str("\r\n");
    }
    (s, ranges)
}

impl Program {
    pub fn render(&self) -> String {
        let t = Tokens::program(self, RenderOpts::default());
        join(&t.toks, Layout::Pretty).0
    }
    pub fn render_with(&self, opts: RenderOpts, layout: Layout) -> String {
        let t = Tokens::program(self, opts);
        join(&t.toks, layout).0
    }
    pub fn main_mut(&mut self) -> Option<&mut FnDef> {
        self.items.iter_mut().find_map(|i| match i {
            Item::Fn(f) if f.name == "main" => Some(f),
            _ => None,
        })
    }
}

pub fn render_expr(e: &Expr) -> String {
    let mut t = Tokens::default();
    t.expr(e);
    join(&t.toks, Layout::Pretty).0.trim_end().to_string()
}

// ---------------------------------------------------------------------------------------------
// a small parser for type texts (used for the frozen jet-signature snapshot and replay files)

pub fn parse_ty(s: &str) -> Option<Ty> {
    let cs: Vec<char> = s.chars().filter(|c| !c.is_whitespace()).collect();
    let mut pos = 0;
    let t = parse_ty_at(&cs, &mut pos)?;
    (pos == cs.len()).then_some(t)
}

fn eat(cs: &[char], pos: &mut usize, lit: &str) -> bool {
    let l: Vec<char> = lit.chars().collect();
    if cs.len() >= *pos + l.len() && cs[*pos..*pos + l.len()] == l[..] {
        *pos += l.len();
        true
    } else {
        false
    }
}

fn parse_num(cs: &[char], pos: &mut usize) -> Option<usize> {
    let start = *pos;
    while *pos < cs.len() && cs[*pos].is_ascii_digit() {
        *pos += 1;
    }
    cs[start..*pos].iter().collect::<String>().parse().ok()
}

fn parse_ty_at(cs: &[char], pos: &mut usize) -> Option<Ty> {
    if eat(cs, pos, "(") {
        let mut v = vec![];
        loop {
            if eat(cs, pos, ")") {
                break;
            }
            v.push(parse_ty_at(cs, pos)?);
            if eat(cs, pos, ",") {
                continue;
            }
            if eat(cs, pos, ")") {
                break;
            }
            return None;
        }
        return Some(Ty::Tuple(v));
    }
    if eat(cs, pos, "[") {
        let t = parse_ty_at(cs, pos)?;
        if !eat(cs, pos, ";") {
            return None;
        }
        let n = parse_num(cs, pos)?;
        if !eat(cs, pos, "]") {
            return None;
        }
        return Some(Ty::arr(t, n));
    }
    if eat(cs, pos, "Either<") {
        let a = parse_ty_at(cs, pos)?;
        if !eat(cs, pos, ",") {
            return None;
        }
        let b = parse_ty_at(cs, pos)?;
        if !eat(cs, pos, ">") {
            return None;
        }
        return Some(Ty::either(a, b));
    }
    if eat(cs, pos, "Option<") {
        let a = parse_ty_at(cs, pos)?;
        if !eat(cs, pos, ">") {
            return None;
        }
        return Some(Ty::opt(a));
    }
    if eat(cs, pos, "List<") {
        let a = parse_ty_at(cs, pos)?;
        if !eat(cs, pos, ",") {
            return None;
        }
        let n = parse_num(cs, pos)?;
        if !eat(cs, pos, ">") {
            return None;
        }
        return Some(Ty::list(a, n));
    }
    // identifier
    let start = *pos;
    while *pos < cs.len() && (cs[*pos].is_ascii_alphanumeric() || cs[*pos] == '_') {
        *pos += 1;
    }
    let id: String = cs[start..*pos].iter().collect();
    if id.is_empty() {
        return None;
    }
    if id == "bool" {
        return Some(Ty::Bool);
    }
    if let Some(rest) = id.strip_prefix('u') {
        if let Ok(n) = rest.parse::<u16>() {
            if matches!(n, 1 | 2 | 4 | 8 | 16 | 32 | 64 | 128 | 256) {
                return Some(Ty::U(n));
            }
        }
    }
    Some(Ty::Alias(id))
}
