//! C15 — values, witness/argument maps and types survive print -> parse.

use crate::drive;
use crate::explore::par_for;
use crate::gen;
use crate::lang::*;
use crate::refmodel::{self, val_expr, BUILTIN_ALIASES, BUILTIN_FUNCTIONS, BUILTIN_TYPES, KEYWORDS, VALUE_WORDS};
use crate::report::Report;
use serde_json::json;
use simfony::parse::ParseFromStr;
use simfony::str::WitnessName;
use std::collections::{BTreeSet, HashMap};

pub fn value_types(quick: bool) -> Vec<Ty> {
    let u = Ty::U;
    let mut v: Vec<Ty> = vec![];
    // byte arrays of every length
    for n in 0..=64usize {
        v.push(Ty::arr(u(8), n));
    }
    let bytes = |n: usize| Ty::arr(Ty::U(8), n);
    // (byte arrays of 16 and 32 bytes print exactly like u128 / u256 values: equal texts at two types in one value)
    let inner: Vec<Ty> = vec![bytes(0), bytes(1), bytes(2), bytes(3), u(8), u(1), u(2), u(4), u(16), u(128), u(256), Ty::Bool, Ty::unit(), Ty::arr(u(16), 2), Ty::arr(u(4), 2), bytes(16), bytes(32)];
    // depth 2: containers of the above
    for t in &inner {
        v.push(t.clone());
        v.push(Ty::opt(t.clone()));
        v.push(Ty::tup(vec![t.clone()]));
        for n in [0usize, 1, 2, 3] {
            v.push(Ty::arr(t.clone(), n));
        }
        v.push(Ty::list(t.clone(), 2));
        v.push(Ty::list(t.clone(), 4));
        for s in &inner {
            v.push(Ty::tup(vec![t.clone(), s.clone()]));
            v.push(Ty::either(t.clone(), s.clone()));
        }
    }
    // depth 3: byte arrays nested twice, next to scalars
    let d2: Vec<Ty> = vec![
        Ty::arr(bytes(2), 2),
        Ty::tup(vec![bytes(1), u(8)]),
        Ty::tup(vec![u(8), bytes(1)]),
        Ty::opt(bytes(2)),
        Ty::list(bytes(1), 4),
        Ty::either(bytes(1), u(8)),
        Ty::arr(u(8), 1),
        Ty::tup(vec![bytes(2), bytes(0), bytes(1)]),
        Ty::arr(Ty::tup(vec![u(8)]), 2),
    ];
    let outer = if quick { 5 } else { d2.len() };
    for t in &d2 {
        v.push(t.clone());
        v.push(Ty::opt(t.clone()));
        v.push(Ty::arr(t.clone(), 2));
        v.push(Ty::arr(t.clone(), 1));
        v.push(Ty::list(t.clone(), 4));
        v.push(Ty::tup(vec![t.clone(), u(8)]));
        v.push(Ty::tup(vec![u(8), t.clone(), u(8)]));
        for s in d2.iter().take(outer) {
            v.push(Ty::tup(vec![t.clone(), s.clone()]));
            v.push(Ty::either(t.clone(), s.clone()));
        }
    }
    let mut seen = BTreeSet::new();
    v.retain(|t| seen.insert(t.clone()));
    v
}

pub fn identifier_pool() -> Vec<String> {
    let mut words: Vec<&str> = vec![];
    words.extend(KEYWORDS);
    words.extend(BUILTIN_TYPES);
    words.extend(BUILTIN_ALIASES);
    words.extend(BUILTIN_FUNCTIONS);
    words.extend(VALUE_WORDS);
    words.extend(["jet", "witness", "param", "main"]);
    let mut out: Vec<String> = vec!["a".into(), "A".into(), "a1".into(), "a_b".into(), "Z9_".into(), "zz".into(), "B".into()];
    for w in words {
        out.push(w.to_string());
        out.push(format!("{w}x"));
        out.push(format!("{w}1"));
        out.push(format!("{w}_"));
        out.push(format!("{w}_x"));
        out.push(format!("x{w}"));
        let flipped: String = w.chars().enumerate().map(|(i, c)| if i == 0 { if c.is_uppercase() { c.to_ascii_lowercase() } else { c.to_ascii_uppercase() } } else { c }).collect();
        out.push(flipped);
    }
    let mut seen = BTreeSet::new();
    out.retain(|t| seen.insert(t.clone()));
    out
}

fn has_nested_bytes(ty: &Ty, v: &Val, inside: bool) -> bool {
    match (ty, v) {
        (Ty::Array(el, n), Val::Array(vs)) => {
            if **el == Ty::U(8) && *n > 0 {
                return inside;
            }
            vs.iter().any(|x| has_nested_bytes(el, x, true))
        }
        (Ty::Tuple(ts), Val::Tuple(vs)) => ts.iter().zip(vs).any(|(t, x)| has_nested_bytes(t, x, true)),
        (Ty::List(el, _), Val::List(vs)) => vs.iter().any(|x| has_nested_bytes(el, x, true)),
        (Ty::Option(el), Val::Some(x)) => has_nested_bytes(el, x, true),
        (Ty::Either(a, _), Val::Left(x)) => has_nested_bytes(a, x, true),
        (Ty::Either(_, b), Val::Right(x)) => has_nested_bytes(b, x, true),
        _ => false,
    }
}

pub fn run(rep: &Report) -> i32 {
    let quick = rep.is_quick();
    let types = value_types(quick);
    let cap = if quick { 300 } else { 4000 };
    rep.set("bounds", json!({"value_types": types.len(), "values_per_type_cap": cap, "map_sizes": "0..6", "byte_array_lengths": "0..64"}));
    // (1) values
    par_for(&types, rep, 4, |i, ty| {
        rep.state();
        let sty = drive::sim_ty(ty);
        let values = gen::vals(ty, cap);
        for v in &values {
            rep.transition(1);
            rep.eval(1);
            rep.trace(1);
            let sv = drive::sim_val(v, ty);
            if has_nested_bytes(ty, v, false) {
                rep.nontrivial(1);
            }
            let r = drive::guard(|| {
                let text = sv.to_string();
                let back = simfony::Value::parse_from_str(&text, &sty);
                (text, back)
            });
            match r {
                Ok((_, Ok(b))) if b == sv => rep.class("value-roundtrip-ok"),
                Ok((text, other)) => {
                    rep.class("value-roundtrip-mismatch");
                    rep.violation(
                        "C15:value-roundtrip",
                        format!("{} : {} prints as {text:?} which parses to {:?}", render_expr(&val_expr(v, ty)), ty.render(), other.map(|x| x.to_string()).map_err(|e| drive::first_line(&e.to_string()))),
                        json!({"kind": "value_roundtrip", "ty": ty.render(), "val": render_expr(&val_expr(v, ty))}),
                    );
                }
                Err(p) => rep.violation(format!("C15:panic:{}", drive::panic_site(&p)), format!("printing/parsing {} : {} panicked: {p}", render_expr(&val_expr(v, ty)), ty.render()), json!({"kind": "value_roundtrip", "ty": ty.render(), "val": render_expr(&val_expr(v, ty))})),
            }
        }
        if i % 97 == 5 || rep.no_sample_yet() {
            rep.sample(4, || json!({"part": "value", "type": ty.render(), "values": values.len(), "example_printed": values.last().map(|v| drive::sim_val(v, ty).to_string())}));
        }
    });
    // (2) types
    let mut tys = crate::props::c07::type_universe(quick);
    tys.extend(types.iter().cloned());
    par_for(&tys, rep, 64, |_, ty| {
        rep.state();
        rep.transition(1);
        rep.eval(1);
        rep.trace(1);
        let sty = drive::sim_ty(ty);
        let r = drive::guard(|| {
            let text = sty.to_string();
            let back = simfony::ResolvedType::parse_from_str(&text);
            (text, back)
        });
        match r {
            Ok((_, Ok(b))) if b == sty => rep.class("type-roundtrip-ok"),
            Ok((text, other)) => rep.violation("C15:type-roundtrip", format!("type {} prints as {text:?} which parses to {:?}", ty.render(), other.map(|x| x.to_string()).map_err(|e| drive::first_line(&e.to_string()))), json!({"kind": "type_roundtrip", "ty": ty.render()})),
            Err(p) => rep.violation(format!("C15:panic:{}", drive::panic_site(&p)), format!("printing/parsing type {} panicked: {p}", ty.render()), json!({"kind": "type_roundtrip", "ty": ty.render()})),
        }
    });
    // (3) maps
    let names = identifier_pool();
    let pool_types: Vec<Ty> = types.iter().step_by(if quick { 23 } else { 5 }).cloned().collect();
    let mut pool: Vec<(Val, Ty)> = vec![];
    for t in &pool_types {
        for v in gen::vals(t, 3) {
            pool.push((v, t.clone()));
        }
    }
    rep.set("identifier_pool", json!(names.len()));
    rep.set("value_pool", json!(pool.len()));
    let mut jobs: Vec<(usize, usize)> = vec![];
    for size in 0..=6usize {
        let offsets = if size == 0 { 1 } else if quick { names.len() } else { names.len() * 4 };
        for o in 0..offsets {
            jobs.push((size, o));
        }
    }
    par_for(&jobs, rep, 16, |_, &(size, o)| {
        rep.state();
        let mut entries: Vec<(String, Val, Ty)> = vec![];
        for k in 0..size {
            let n = names[(o + k * 37) % names.len()].clone();
            if entries.iter().any(|e| e.0 == n) {
                continue;
            }
            let (v, t) = pool[(o * 7 + k * 11) % pool.len()].clone();
            entries.push((n, v, t));
        }
        check_map(rep, &entries, o % 53 == 0);
    });
    // maps in which one hex text occurs at two types (u256 / [u8; 32], u128 / [u8; 16]) under different names
    {
        use crate::big::Big;
        for pat in [0u8, 0xff, 0x5a] {
            let b32: Vec<u8> = (0..32).map(|i| if pat == 0x5a { pat.wrapping_add(i as u8) } else { pat }).collect();
            let bytes = |n: usize| Val::Array(b32[..n].iter().map(|b| Val::u(8, *b as u128)).collect());
            let entries = vec![
                ("PK".to_string(), Val::U(256, Big::from_bytes(&b32)), Ty::U(256)),
                ("PK_BYTES".to_string(), bytes(32), Ty::arr(Ty::U(8), 32)),
                ("HALF".to_string(), Val::U(128, Big::from_bytes(&b32[..16])), Ty::U(128)),
                ("HALF_BYTES".to_string(), bytes(16), Ty::arr(Ty::U(8), 16)),
                ("AGAIN".to_string(), Val::U(256, Big::from_bytes(&b32)), Ty::U(256)),
            ];
            for k in 2..=entries.len() {
                rep.state();
                check_map(rep, &entries[..k], pat == 0);
                let rev: Vec<_> = entries[..k].iter().rev().cloned().collect();
                check_map(rep, &rev, false);
            }
        }
    }
    rep.finish(
        "states = value types + types + maps; transitions include one per value; non-trivial = values containing a non-empty byte array nested inside another container",
        &["values/maps are built with the Rust constructors; the harness's own renderer is only used in messages"],
        true,
    )
}

fn permutations(n: usize) -> Vec<Vec<usize>> {
    if n == 0 {
        return vec![vec![]];
    }
    let mut out = vec![];
    for p in permutations(n - 1) {
        for i in 0..=p.len() {
            let mut q = p.clone();
            q.insert(i, n - 1);
            out.push(q);
        }
    }
    out
}

fn check_map(rep: &Report, entries: &[(String, Val, Ty)], sample: bool) {
    let build = |order: &[usize]| -> HashMap<WitnessName, simfony::Value> {
        let mut h = HashMap::new();
        for &i in order {
            let (n, v, t) = &entries[i];
            h.insert(WitnessName::from_str_unchecked(n), drive::sim_val(v, t));
        }
        h
    };
    let ident: Vec<usize> = (0..entries.len()).collect();
    let desc = || json!({"kind": "map_roundtrip", "entries": crate::props::common::map_json(entries)});
    let r = drive::guard(|| {
        let mut problems: Vec<(String, String)> = vec![];
        let w = simfony::WitnessValues::from(build(&ident));
        let a = simfony::Arguments::from(build(&ident));
        let wt = w.to_string();
        let at = a.to_string();
        match simfony::WitnessValues::parse_from_str(&wt) {
            Ok(b) if b == w => {}
            other => problems.push(("C15:witness-module-roundtrip".into(), format!("witness module {wt:?} parses to {:?}", other.map(|_| "a different map").map_err(|e| drive::first_line(&e.to_string()))))),
        }
        match simfony::Arguments::parse_from_str(&at) {
            Ok(b) if b == a => {}
            other => problems.push(("C15:param-module-roundtrip".into(), format!("param module {at:?} parses to {:?}", other.map(|_| "a different map").map_err(|e| drive::first_line(&e.to_string()))))),
        }
        // JSON
        match serde_json::to_string(&w) {
            Ok(js) => match serde_json::from_str::<simfony::WitnessValues>(&js) {
                Ok(b) if b == w => {}
                other => problems.push(("C15:witness-json-roundtrip".into(), format!("witness JSON {js:?} parses to {:?}", other.map(|_| "a different map").map_err(|e| e.to_string())))),
            },
            Err(e) => problems.push(("C15:witness-json-print".into(), e.to_string())),
        }
        match serde_json::to_string(&a) {
            Ok(js) => match serde_json::from_str::<simfony::Arguments>(&js) {
                Ok(b) if b == a => {}
                other => problems.push(("C15:param-json-roundtrip".into(), format!("argument JSON {js:?} parses to {:?}", other.map(|_| "a different map").map_err(|e| e.to_string())))),
            },
            Err(e) => problems.push(("C15:param-json-print".into(), e.to_string())),
        }
        // both printed modules in one file (either order): each parser reads its own module and ignores the other,
        // also when the two maps use the same names
        for both in [format!("{wt}\n{at}"), format!("{at}\n{wt}")] {
            match simfony::WitnessValues::parse_from_str(&both) {
                Ok(b) if b == w => {}
                other => problems.push(("C15:witness-module-beside-param-module".into(), format!("witness module in {both:?} parses to {:?}", other.map(|_| "a different map").map_err(|e| drive::first_line(&e.to_string()))))),
            }
            match simfony::Arguments::parse_from_str(&both) {
                Ok(b) if b == a => {}
                other => problems.push(("C15:param-module-beside-witness-module".into(), format!("param module in {both:?} parses to {:?}", other.map(|_| "a different map").map_err(|e| drive::first_line(&e.to_string()))))),
            }
        }
        // determinism + sortedness of module printing over insertion orders
        if entries.len() <= 4 {
            for p in permutations(entries.len()) {
                let t = simfony::WitnessValues::from(build(&p)).to_string();
                if t != wt {
                    problems.push(("C15:module-print-nondeterministic".into(), format!("insertion order {p:?} prints {t:?} instead of {wt:?}")));
                    break;
                }
            }
        }
        let printed_names: Vec<String> = wt.lines().filter_map(|l| l.trim().strip_prefix("const ")).filter_map(|l| l.split(':').next()).map(|s| s.to_string()).collect();
        let mut sorted = printed_names.clone();
        sorted.sort();
        if printed_names != sorted || printed_names.len() != entries.len() {
            problems.push(("C15:module-print-unsorted".into(), format!("printed names {printed_names:?}")));
        }
        // duplicates are rejected
        if let Some((n, v, t)) = entries.first() {
            let sv = drive::sim_val(v, t);
            let line = format!("    const {n}: {} = {sv};\n", sv.ty());
            let dup_mod = format!("mod witness {{\n{line}{line}}}");
            if simfony::WitnessValues::parse_from_str(&dup_mod).is_ok() {
                problems.push(("C15:duplicate-module-name-accepted".into(), format!("{dup_mod:?} accepted")));
            }
            let dup_arg = format!("mod param {{\n{line}{line}}}");
            if simfony::Arguments::parse_from_str(&dup_arg).is_ok() {
                problems.push(("C15:duplicate-module-name-accepted".into(), format!("{dup_arg:?} accepted")));
            }
            let entry = format!("{}: {{\"value\": {}, \"type\": {}}}", serde_json::to_string(n).unwrap(), serde_json::to_string(&sv.to_string()).unwrap(), serde_json::to_string(&sv.ty().to_string()).unwrap());
            let dup_json = format!("{{{entry}, {entry}}}");
            if serde_json::from_str::<simfony::WitnessValues>(&dup_json).is_ok() || serde_json::from_str::<simfony::Arguments>(&dup_json).is_ok() {
                problems.push(("C15:duplicate-json-name-accepted".into(), format!("{dup_json:?} accepted")));
            }
        }
        (problems, wt)
    });
    rep.transition(1 + entries.len() as u64);
    rep.eval(6);
    rep.trace(6);
    match r {
        Ok((problems, wt)) => {
            if problems.is_empty() {
                rep.class("map-ok");
            }
            for (sig, what) in problems {
                rep.class("map-problem");
                rep.violation(sig, what, desc());
            }
            if sample {
                rep.sample(8, || json!({"part": "map", "module_text": wt}));
            }
        }
        Err(p) => rep.violation(format!("C15:panic:{}", drive::panic_site(&p)), format!("map round trip panicked: {p}"), desc()),
    }
}
