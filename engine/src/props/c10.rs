//! C10 — a variable denotes its nearest, most recent binding.
//! Oracle: an environment stack (R2's scoping rule) tracked while the structure is elaborated; every program
//! is also evaluated by the generic R2 evaluator as a cross-check of the elaborator.

use crate::drive::{self, RunOutcome};
use crate::explore::par_for;
use crate::gen;
use crate::lang::*;
use crate::props::common::*;
use crate::refmodel;
use crate::report::Report;
use serde_json::json;
use std::collections::HashMap;

const NAMES: [&str; 2] = ["a", "b"];

#[derive(Clone, Debug, PartialEq, Eq, Hash)]
enum Rhs {
    Fresh,
    Copy(usize),
}

#[derive(Clone, Debug, PartialEq, Eq, Hash)]
enum S {
    /// let <name>: u8 = rhs
    Let(usize, Rhs),
    /// let _: u8 = rhs
    LetIgnore(Rhs),
    /// let (n0, n1): (u8, u8) = (r0, r1)
    LetPair(usize, usize, Rhs, Rhs),
    /// { ... };
    Block(Vec<S>),
    /// let <name>: u8 = { ...; rhs };
    LetBlock(usize, Vec<S>, Rhs),
    /// match s { Left(<l>: u8) => { ... }, Right(<r>: u8) => { ... } };
    Match(usize, Vec<S>, usize, Vec<S>),
    /// let <name>: u8 = <fn>(r0, r1);   fn index into FUNCS
    LetCall(usize, usize, Rhs, Rhs),
    /// an arbitrary pattern let (S1): let P: T = <fresh constants>
    LetPat(Pat, Ty),
    /// two sibling blocks with nothing bound between them (S3). kind 0: `let (n, other): (u8, u8) = ({l; rl}, {r; rr});`
    /// kind 1 / 2: `let n: u8 = fa / fb({l; rl}, {r; rr});`  kind 3: `{ l }; { <probes> r };` with no probe in between
    Siblings(u8, usize, Vec<S>, Rhs, Vec<S>, Rhs),
}

/// (name, parameter order, returned parameter, body kind)
struct Func {
    name: &'static str,
    params: [&'static str; 2],
    ret: &'static str,
    /// 0 = returns `ret`; 1 = `let b = a; let a = 77; b`; 2 = `let a = b; { a }` (a parameter re-bound, read in a nested block)
    shadowing_body: u8,
}

const FUNCS: [Func; 6] = [
    Func { name: "fa", params: ["a", "b"], ret: "a", shadowing_body: 0 },
    Func { name: "fb", params: ["a", "b"], ret: "b", shadowing_body: 0 },
    Func { name: "ga", params: ["b", "a"], ret: "a", shadowing_body: 0 },
    Func { name: "gb", params: ["b", "a"], ret: "b", shadowing_body: 0 },
    // fn hs(a: u8, b: u8) -> u8 { let b: u8 = a; let a: u8 = 77; b }   -> returns the first argument
    Func { name: "hs", params: ["a", "b"], ret: "a", shadowing_body: 1 },
    // fn hn(a: u8, b: u8) -> u8 { let a: u8 = b; { a } }   -> returns the second argument
    Func { name: "hn", params: ["a", "b"], ret: "b", shadowing_body: 2 },
];

fn func_defs() -> Vec<FnDef> {
    FUNCS
        .iter()
        .map(|f| {
            let params = vec![(f.params[0].to_string(), Ty::U(8)), (f.params[1].to_string(), Ty::U(8))];
            let body = if f.shadowing_body == 1 {
                (vec![let_(Pat::id("b"), Ty::U(8), var("a")), let_(Pat::id("a"), Ty::U(8), dec(77))], Some(Box::new(var("b"))))
            } else if f.shadowing_body == 2 {
                (vec![let_(Pat::id("a"), Ty::U(8), var("b"))], Some(Box::new(block(vec![], Some(var("a"))))))
            } else {
                (vec![], Some(Box::new(var(f.ret))))
            };
            FnDef { name: f.name.into(), params, ret: Some(Ty::U(8)), body }
        })
        .collect()
}

fn size(s: &S) -> usize {
    match s {
        S::Block(v) => 1 + v.iter().map(size).sum::<usize>(),
        S::LetBlock(_, v, _) => 1 + v.iter().map(size).sum::<usize>(),
        S::Match(_, l, _, r) | S::Siblings(_, _, l, _, r, _) => 1 + l.iter().map(size).sum::<usize>() + r.iter().map(size).sum::<usize>(),
        _ => 1,
    }
}

/// visibility bitmask over NAMES
fn rhs_options(vis: u8) -> Vec<Rhs> {
    let mut v = vec![Rhs::Fresh];
    for i in 0..2 {
        if vis & (1 << i) != 0 {
            v.push(Rhs::Copy(i));
        }
    }
    v
}

fn vis_after(s: &S, vis: u8) -> u8 {
    match s {
        S::Let(n, _) | S::LetBlock(n, _, _) | S::LetCall(n, _, _, _) => vis | (1 << n),
        S::LetPair(n0, n1, _, _) => vis | (1 << n0) | (1 << n1),
        S::Siblings(0, _, _, _, _, _) => vis | 3,
        S::Siblings(1 | 2, n, _, _, _, _) => vis | (1 << n),
        S::LetPat(p, _) => {
            let mut names = vec![];
            p.names(&mut names);
            let mut v = vis;
            for n in names {
                if let Some(i) = NAMES.iter().position(|x| *x == n) {
                    v |= 1 << i;
                }
            }
            v
        }
        _ => vis,
    }
}

/// all single statements of size <= budget under visibility `vis`
fn stmts(budget: usize, depth: usize, vis: u8, rich: bool) -> Vec<S> {
    let mut out = vec![];
    if budget == 0 {
        return out;
    }
    let rs = rhs_options(vis);
    for n in 0..2 {
        for r in &rs {
            out.push(S::Let(n, r.clone()));
        }
    }
    for r in &rs {
        out.push(S::LetIgnore(r.clone()));
    }
    for (n0, n1) in [(0usize, 1usize), (1, 0)] {
        for r0 in &rs {
            for r1 in &rs {
                if *r0 == Rhs::Fresh && *r1 == Rhs::Fresh || (*r0 != Rhs::Fresh && *r1 != Rhs::Fresh && r0 != r1) {
                    out.push(S::LetPair(n0, n1, r0.clone(), r1.clone()));
                }
            }
        }
    }
    if rich {
        for n in 0..2 {
            for (fi, _) in FUNCS.iter().enumerate() {
                // arguments: (fresh, fresh) and, when both are visible, (a, b)
                out.push(S::LetCall(n, fi, Rhs::Fresh, Rhs::Fresh));
                if vis == 3 {
                    out.push(S::LetCall(n, fi, Rhs::Copy(0), Rhs::Copy(1)));
                }
            }
        }
    }
    if depth > 0 && budget >= 2 {
        for inner in seqs(budget - 1, depth - 1, vis, rich, 1) {
            out.push(S::Block(inner.clone()));
            let vin = inner.iter().fold(vis, |v, s| vis_after(s, v));
            for n in 0..2 {
                for r in rhs_options(vin) {
                    out.push(S::LetBlock(n, inner.clone(), r));
                }
            }
        }
        // match: binders over {a, b}; each arm may hold statements
        for (l, r) in [(0usize, 0usize), (0, 1), (1, 0)] {
            let arm_budget = budget - 1;
            for la in seqs(arm_budget, depth - 1, vis | (1 << l), rich, 0) {
                let used: usize = la.iter().map(size).sum();
                for ra in seqs(arm_budget - used, depth - 1, vis | (1 << r), rich, 0) {
                    if la.is_empty() && ra.is_empty() && !(l == 0 && r == 1) {
                        continue;
                    }
                    out.push(S::Match(l, la.clone(), r, ra));
                }
            }
        }
    }
    out.retain(|s| size(s) <= budget);
    out
}

/// all statement sequences with total size <= budget and at least `min_len` statements
fn seqs(budget: usize, depth: usize, vis: u8, rich: bool, min_len: usize) -> Vec<Vec<S>> {
    let mut out = vec![];
    if min_len == 0 {
        out.push(vec![]);
    }
    if budget == 0 {
        return out;
    }
    for first in stmts(budget, depth, vis, rich) {
        let k = size(&first);
        let v2 = vis_after(&first, vis);
        for rest in seqs(budget - k, depth, v2, rich, 0) {
            let mut s = vec![first.clone()];
            s.extend(rest);
            out.push(s);
        }
    }
    out
}

// ---------------------------------------------------------------------------------------------
// elaboration with an environment stack (the oracle)

struct Elab {
    env: Vec<HashMap<String, u8>>,
    next: u8,
    shadow_events: usize,
    scope_exits: usize,
    /// probe points: (index of the point, names NOT visible there)
    invisible_at: Vec<Vec<String>>,
    /// when Some(k, name): insert a reference to `name` at probe point k (out-of-scope twin)
    twin: Option<(usize, String)>,
    point: usize,
    /// value carried by the witness in the Left / Right case
    left_payload: u8,
    right_payload: u8,
    /// which side the witness takes (for value tracking inside arms both arms are elaborated with their payload)
    typing_distinct: bool,
    pending: Vec<(String, u8)>,
}

impl Elab {
    fn fresh(&mut self) -> u8 {
        self.next = self.next.wrapping_add(1);
        if self.next == 77 || self.next == 201 || self.next == 202 {
            self.next += 1;
        }
        self.next
    }
    fn lookup(&self, n: &str) -> Option<u8> {
        self.env.iter().rev().find_map(|s| s.get(n).copied())
    }
    fn bind(&mut self, n: &str, v: u8) {
        if self.lookup(n).is_some() {
            self.shadow_events += 1;
        }
        self.env.last_mut().unwrap().insert(n.to_string(), v);
    }
    fn rhs(&mut self, r: &Rhs) -> (Expr, u8) {
        match r {
            Rhs::Fresh => {
                let c = self.fresh();
                (dec(c as u128), c)
            }
            Rhs::Copy(i) => {
                let v = self.lookup(NAMES[*i]).expect("copy of a visible name");
                (var(NAMES[*i]), v)
            }
        }
    }
    /// asserts for every visible name (+ the twin reference if this is its point)
    fn probes(&mut self, out: &mut Vec<Stmt>) {
        let mut invisible = vec![];
        for n in NAMES {
            match self.lookup(n) {
                Some(v) => out.push(Stmt::Expr(assert_(jet("eq_8", vec![var(n), dec(v as u128)])))),
                None => invisible.push(n.to_string()),
            }
        }
        if let Some((k, name)) = &self.twin {
            if *k == self.point {
                out.push(Stmt::Expr(assert_(jet("eq_8", vec![var(name), dec(0)]))));
            }
        }
        self.invisible_at.push(invisible);
        self.point += 1;
    }
    fn seq(&mut self, ss: &[S], out: &mut Vec<Stmt>) {
        for s in ss {
            self.stmt(s, out);
            self.probes(out);
        }
    }
    fn pat_rhs(&mut self, p: &Pat, ty: &Ty) -> Expr {
        // bind every name of the pattern to a fresh constant, build the matching constant expression
        match (p, ty) {
            (Pat::Tuple(ps), Ty::Tuple(ts)) => Expr::Tuple(ps.iter().zip(ts).map(|(p, t)| self.pat_rhs(p, t)).collect()),
            (Pat::Array(ps), Ty::Array(t, _)) => Expr::Array(ps.iter().map(|p| self.pat_rhs(p, t)).collect()),
            (Pat::Id(n), Ty::U(8)) => {
                let c = self.fresh();
                self.pending.push((n.clone(), c));
                dec(c as u128)
            }
            (_, t) => {
                // ignored (or a whole sub-structure bound / ignored): fill with fresh constants
                self.const_of(t)
            }
        }
    }
    fn const_of(&mut self, t: &Ty) -> Expr {
        match t {
            Ty::U(8) => {
                let c = self.fresh();
                dec(c as u128)
            }
            Ty::Tuple(ts) => Expr::Tuple(ts.iter().map(|t| self.const_of(t)).collect()),
            Ty::Array(t, n) => Expr::Array((0..*n).map(|_| self.const_of(t)).collect()),
            _ => panic!("const_of {t:?}"),
        }
    }
    fn stmt(&mut self, s: &S, out: &mut Vec<Stmt>) {
        match s {
            S::Let(n, r) => {
                let (e, v) = self.rhs(r);
                out.push(let_(Pat::id(NAMES[*n]), Ty::U(8), e));
                self.bind(NAMES[*n], v);
            }
            S::LetIgnore(r) => {
                let (e, _) = self.rhs(r);
                out.push(let_(Pat::Ignore, Ty::U(8), e));
            }
            S::LetPair(n0, n1, r0, r1) => {
                let (e0, v0) = self.rhs(r0);
                let (e1, v1) = self.rhs(r1);
                out.push(let_(Pat::Tuple(vec![Pat::id(NAMES[*n0]), Pat::id(NAMES[*n1])]), Ty::tup(vec![Ty::U(8), Ty::U(8)]), Expr::Tuple(vec![e0, e1])));
                self.bind(NAMES[*n0], v0);
                self.bind(NAMES[*n1], v1);
            }
            S::LetPat(p, ty) => {
                self.pending.clear();
                let e = self.pat_rhs(p, ty);
                out.push(let_(p.clone(), ty.clone(), e));
                let pend = std::mem::take(&mut self.pending);
                for (n, v) in pend {
                    self.bind(&n, v);
                }
            }
            S::Block(inner) => {
                self.env.push(HashMap::new());
                let mut body = vec![];
                self.seq(inner, &mut body);
                self.env.pop();
                self.scope_exits += 1;
                out.push(Stmt::Expr(block(body, None)));
            }
            S::LetBlock(n, inner, r) => {
                self.env.push(HashMap::new());
                let mut body = vec![];
                self.seq(inner, &mut body);
                let (e, v) = self.rhs(r);
                self.env.pop();
                self.scope_exits += 1;
                out.push(let_(Pat::id(NAMES[*n]), Ty::U(8), block(body, Some(e))));
                self.bind(NAMES[*n], v);
            }
            S::Match(l, la, r, ra) => {
                let mut arms = vec![];
                for (binder, body_s, payload, left) in [(*l, la, self.left_payload, true), (*r, ra, self.right_payload, false)] {
                    self.env.push(HashMap::new());
                    self.bind(NAMES[binder], payload);
                    let mut body = vec![];
                    // probe right at the start of the arm (binder visible), then the statements
                    self.probes(&mut body);
                    self.seq(body_s, &mut body);
                    self.env.pop();
                    self.scope_exits += 1;
                    let pat = if left { MPat::Left(NAMES[binder].into(), Ty::U(8)) } else { MPat::Right(NAMES[binder].into(), Ty::U(8)) };
                    arms.push((pat, block(body, None)));
                }
                let b = arms.pop().unwrap();
                let a = arms.pop().unwrap();
                out.push(Stmt::Expr(match_(var("sel"), a, b)));
            }
            S::Siblings(kind, n, l, rl, r, rr) => {
                self.env.push(HashMap::new());
                let mut body_l = vec![];
                self.seq(l, &mut body_l);
                let (el, vl) = self.rhs(rl);
                self.env.pop();
                self.scope_exits += 1;
                self.env.push(HashMap::new());
                let mut body_r = vec![];
                if *kind == 3 {
                    // lookups at the very start of the second block, before anything is bound in it
                    self.probes(&mut body_r);
                }
                self.seq(r, &mut body_r);
                let (er, vr) = self.rhs(rr);
                self.env.pop();
                self.scope_exits += 1;
                match kind {
                    0 => {
                        out.push(let_(Pat::Tuple(vec![Pat::id(NAMES[*n]), Pat::id(NAMES[1 - *n])]), Ty::tup(vec![Ty::U(8), Ty::U(8)]), Expr::Tuple(vec![block(body_l, Some(el)), block(body_r, Some(er))])));
                        self.bind(NAMES[*n], vl);
                        self.bind(NAMES[1 - *n], vr);
                    }
                    1 | 2 => {
                        let f = if *kind == 1 { "fa" } else { "fb" };
                        out.push(let_(Pat::id(NAMES[*n]), Ty::U(8), fcall(f, vec![block(body_l, Some(el)), block(body_r, Some(er))])));
                        self.bind(NAMES[*n], if *kind == 1 { vl } else { vr });
                    }
                    _ => {
                        out.push(Stmt::Expr(block(body_l, None)));
                        out.push(Stmt::Expr(block(body_r, None)));
                    }
                }
            }
            S::LetCall(n, fi, r0, r1) => {
                let (e0, v0) = self.rhs(r0);
                let (e1, v1) = self.rhs(r1);
                let f = &FUNCS[*fi];
                // the function returns the parameter named f.ret; parameters are bound positionally
                let v = if f.params[0] == f.ret { v0 } else { v1 };
                out.push(let_(Pat::id(NAMES[*n]), Ty::U(8), fcall(f.name, vec![e0, e1])));
                self.bind(NAMES[*n], v);
            }
        }
    }
}

// `pending` is only used by pat_rhs; keep it in a side field
impl Elab {
    fn new(twin: Option<(usize, String)>) -> Self {
        Elab { env: vec![HashMap::new()], next: 0, shadow_events: 0, scope_exits: 0, invisible_at: vec![], twin, point: 0, left_payload: 201, right_payload: 202, typing_distinct: false, pending: vec![] }
    }
}

struct ElabOut {
    prog: Program,
    uses_match: bool,
    shadow_events: usize,
    scope_exits: usize,
    invisible_at: Vec<Vec<String>>,
}

fn contains_match(ss: &[S]) -> bool {
    ss.iter().any(|s| match s {
        S::Match(..) => true,
        S::Block(v) | S::LetBlock(_, v, _) => contains_match(v),
        S::Siblings(_, _, l, _, r, _) => contains_match(l) || contains_match(r),
        _ => false,
    })
}

fn uses_calls(ss: &[S]) -> bool {
    ss.iter().any(|s| match s {
        S::LetCall(..) => true,
        S::Block(v) | S::LetBlock(_, v, _) => uses_calls(v),
        S::Match(_, l, _, r) => uses_calls(l) || uses_calls(r),
        S::Siblings(k, _, l, _, r, _) => *k == 1 || *k == 2 || uses_calls(l) || uses_calls(r),
        _ => false,
    })
}

fn elaborate(ss: &[S], twin: Option<(usize, String)>) -> ElabOut {
    let mut el = Elab::new(twin);
    let mut h = gen::Helpers::default();
    let mut stmts = vec![];
    let uses_match = contains_match(ss);
    if uses_match {
        stmts.extend(gen::anchored_witness(&mut h, "sel", "SEL", &Ty::either(Ty::U(8), Ty::U(8))));
    }
    el.seq(ss, &mut stmts);
    let mut items: Vec<Item> = h.fns.into_iter().map(Item::Fn).collect();
    if uses_calls(ss) {
        items.extend(func_defs().into_iter().map(Item::Fn));
    }
    items.push(Item::Fn(FnDef { name: "main".into(), params: vec![], ret: None, body: (stmts, None) }));
    ElabOut { prog: Program { items }, uses_match, shadow_events: el.shadow_events, scope_exits: el.scope_exits, invisible_at: el.invisible_at }
}

pub fn run(rep: &Report) -> i32 {
    let quick = rep.is_quick();
    // S2: structure-rich
    let budget = if quick { 3 } else { 4 };
    let mut structures: Vec<(String, Vec<S>)> = seqs(budget, 3, 0, true, 1).into_iter().map(|s| ("S2".to_string(), s)).collect();
    let s2 = structures.len();
    // a deeper slice without calls (cheaper alphabet): budget + 1
    // (quick: every fourth structure of this slice, in enumeration order)
    let mut deep_seen = 0usize;
    for s in seqs(budget + 1, 3, 0, false, 1) {
        if s.iter().map(size).sum::<usize>() == budget + 1 {
            deep_seen += 1;
            if quick && deep_seen % 4 != 0 {
                continue;
            }
            structures.push(("S2-deep".to_string(), s));
        }
    }
    let s2deep = structures.len() - s2;
    // S1: pattern-rich — every ordered pair of pattern lets in every structural context
    let u8t = Ty::U(8);
    let mut ptypes = vec![Ty::tup(vec![u8t.clone(), u8t.clone()]), Ty::tup(vec![Ty::tup(vec![u8t.clone(), u8t.clone()]), u8t.clone()]), Ty::arr(u8t.clone(), 2), Ty::arr(u8t.clone(), 3)];
    if !quick {
        ptypes.push(Ty::tup(vec![u8t.clone(), Ty::tup(vec![u8t.clone(), u8t.clone()])]));
        ptypes.push(Ty::tup(vec![u8t.clone(), u8t.clone(), u8t.clone()]));
        ptypes.push(Ty::tup(vec![u8t.clone(), Ty::arr(u8t.clone(), 2)]));
        ptypes.push(Ty::arr(Ty::tup(vec![u8t.clone(), u8t.clone()]), 2));
    }
    let mut pats: Vec<(Pat, Ty)> = vec![];
    for t in &ptypes {
        for p in gen::patterns(t, &NAMES, 3) {
            // only u8-typed binders keep the all-u8 typing
            let mut b = vec![];
            gen::pattern_bindings(&p, t, &mut b);
            if b.iter().all(|(_, ty)| *ty == u8t) && !b.is_empty() {
                pats.push((p, t.clone()));
            }
        }
    }
    let n_pats = pats.len();
    for (p1, t1) in &pats {
        for (p2, t2) in &pats {
            let l1 = S::LetPat(p1.clone(), t1.clone());
            let l2 = S::LetPat(p2.clone(), t2.clone());
            let contexts: Vec<Vec<S>> = vec![
                vec![l1.clone(), l2.clone()],
                vec![l1.clone(), S::Block(vec![l2.clone()])],
                vec![S::Let(0, Rhs::Fresh), S::Block(vec![l1.clone(), l2.clone()])],
                vec![l1.clone(), S::LetBlock(1, vec![l2.clone()], Rhs::Copy(0))],
                vec![l1.clone(), S::Match(0, vec![l2.clone()], 1, vec![])],
                vec![S::Match(1, vec![l1.clone(), l2.clone()], 0, vec![l2.clone()])],
                vec![S::Block(vec![l1.clone()]), l2.clone()],
                vec![l1.clone(), S::Block(vec![S::Block(vec![l2.clone()])]), S::Let(1, Rhs::Fresh)],
            ];
            for (ci, c) in contexts.into_iter().enumerate() {
                // LetBlock with Copy(0) requires `a` visible inside: only valid if it is; skip otherwise
                if ci == 3 {
                    let vis = c[..1].iter().fold(0u8, |v, s| vis_after(s, v));
                    let vin = vis_after(&l2, vis);
                    if vin & 1 == 0 {
                        continue;
                    }
                }
                structures.push((format!("S1-ctx{ci}"), c));
            }
        }
    }
    // S3: sibling blocks with nothing bound between them, under every visibility prefix and in three contexts
    let s3_start = structures.len();
    let prefixes: Vec<Vec<S>> = vec![vec![], vec![S::Let(0, Rhs::Fresh)], vec![S::Let(1, Rhs::Fresh)], vec![S::LetPair(0, 1, Rhs::Fresh, Rhs::Fresh)]];
    // statement budgets of the (left, right) block: quick (1, 1); thorough (2, 1) and (1, 2)
    let budgets: &[(usize, usize)] = if quick { &[(1, 1)] } else { &[(2, 1), (1, 2)] };
    for pre in &prefixes {
      for &(lb, rb) in budgets {
        let vis = pre.iter().fold(0u8, |v, s| vis_after(s, v));
        for l in seqs(lb, 1, vis, false, 0) {
            let vl = l.iter().fold(vis, |v, s| vis_after(s, v));
            for r in seqs(rb, 1, vis, false, 0) {
                let vr = r.iter().fold(vis, |v, s| vis_after(s, v));
                let mut sibs = vec![];
                for rl in rhs_options(vl) {
                    for rr in rhs_options(vr) {
                        for n in 0..2 {
                            sibs.push(S::Siblings(0, n, l.clone(), rl.clone(), r.clone(), rr.clone()));
                        }
                        sibs.push(S::Siblings(1, 0, l.clone(), rl.clone(), r.clone(), rr.clone()));
                        sibs.push(S::Siblings(2, 1, l.clone(), rl.clone(), r.clone(), rr.clone()));
                    }
                }
                sibs.push(S::Siblings(3, 0, l.clone(), Rhs::Fresh, r.clone(), Rhs::Fresh));
                for sib in sibs {
                    for ctx in 0..3 {
                        let mut c = pre.clone();
                        match ctx {
                            0 => c.push(sib.clone()),
                            1 => c.push(S::Block(vec![sib.clone()])),
                            _ => c.push(S::Match(0, vec![sib.clone()], 1, vec![sib.clone()])),
                        }
                        structures.push(("S3-siblings".to_string(), c));
                    }
                }
            }
        }
      }
    }
    let s3 = structures.len() - s3_start;
    // S4: long sequences - n statements in one scope (every let stays live in the environment, shadowed or not)
    let s4_start = structures.len();
    let lens: &[usize] = if quick { &[40, 64, 65, 66, 70] } else { &[40, 63, 64, 65, 66, 70, 100, 127, 128, 129, 130] };
    for &n in lens {
        let alt: Vec<S> = (0..n).map(|i| if i % 2 == 0 { S::Let(0, Rhs::Fresh) } else { S::Let(1, Rhs::Copy(0)) }).collect();
        let same: Vec<S> = (0..n).map(|i| if i == 0 { S::Let(1, Rhs::Fresh) } else { S::Let(0, Rhs::Fresh) }).collect();
        let pairs: Vec<S> = (0..n / 2).map(|i| if i % 2 == 0 { S::LetPair(0, 1, Rhs::Fresh, Rhs::Fresh) } else { S::LetPair(1, 0, Rhs::Copy(0), Rhs::Copy(1)) }).collect();
        let mut tail_block = same.clone();
        tail_block.push(S::Block(vec![S::Let(1, Rhs::Copy(0)), S::Let(0, Rhs::Copy(1))]));
        tail_block.push(S::Match(0, vec![S::Let(1, Rhs::Copy(0))], 1, vec![]));
        let mut call = same.clone();
        call.push(S::LetCall(0, 4, Rhs::Copy(1), Rhs::Copy(0)));
        for c in [alt, same, pairs, tail_block, call] {
            structures.push(("S4-long".to_string(), c));
        }
    }
    let s4 = structures.len() - s4_start;
    rep.set("bounds", json!({"S4_long_sequences": s4, "S4_lengths": lens, "S3_sibling_block_structures": s3, "S2_statement_budget": budget, "S2_structures": s2, "S2_deep_structures_without_calls": s2deep, "S2_deep_stride": if quick { 4 } else { 1 }, "S1_patterns": n_pats, "S1_contexts": 8, "nesting": 3, "names": NAMES}));
    rep.transition(structures.len() as u64);
    let seen = std::sync::Mutex::new(std::collections::HashSet::new());
    par_for(&structures, rep, 32, |i, (family, ss)| {
        let el = elaborate(ss, None);
        let text = el.prog.render();
        if !seen.lock().unwrap().insert(crate::report::fxhash(text.as_bytes())) {
            return;
        }
        rep.state();
        if el.shadow_events > 0 || el.scope_exits > 0 {
            rep.nontrivial(1);
        }
        // cross-check the elaborator against the generic R2 evaluator
        let witness_cases: Vec<Vec<(String, Val, Ty)>> = if el.uses_match {
            vec![
                vec![("SEL".into(), Val::Left(Box::new(Val::u(8, 201))), Ty::either(Ty::U(8), Ty::U(8)))],
                vec![("SEL".into(), Val::Right(Box::new(Val::u(8, 202))), Ty::either(Ty::U(8), Ty::U(8)))],
            ]
        } else {
            vec![vec![]]
        };
        rep.eval(1);
        let built = match drive::build(&text, simfony::Arguments::default(), false) {
            Ok(b) => b,
            Err(o) => {
                rep.class("not-compiled");
                rep.violation("C10:well-scoped-program-rejected", format!("{family}: program whose every reference is in scope was not compiled: {o:?}"), json!({"kind": "compile", "program": text, "expect": "accept", "observed": "reject"}));
                return;
            }
        };
        for w in &witness_cases {
            rep.transition(1);
            let wmap: HashMap<String, Val> = w.iter().map(|(n, v, _)| (n.clone(), v.clone())).collect();
            match refmodel::run_program(&el.prog, &wmap, &HashMap::new()) {
                Ok(()) => {}
                Err(s) => {
                    rep.machinery(format!("elaborator and R2 disagree ({s:?}) on {text}"));
                    return;
                }
            }
            rep.eval(1);
            rep.trace(1);
            let out = drive::DUMMY.with(|env| drive::run(&built, drive::witness_map(w), env));
            rep.class(out.class());
            if out != RunOutcome::Success {
                rep.violation(
                    format!("C10:wrong-binding:{}", out.class()),
                    format!("{family}: every assert states the constant held by the nearest, most recent binding, but the run gives {out:?}"),
                    run_replay(&text, w, false, "success", out.class()),
                );
            }
            // a negative control: flipping the witness payload must make an arm assert fail
        }
        // out-of-scope twins: a reference to a name that is not visible at a probe point must be rejected
        let twin_budget = if quick { 2 } else { 6 };
        let mut done = 0;
        for (k, names) in el.invisible_at.iter().enumerate() {
            for n in names {
                if done >= twin_budget {
                    break;
                }
                done += 1;
                let t = elaborate(ss, Some((k, n.clone())));
                let ttext = t.prog.render();
                rep.transition(1);
                rep.eval(1);
                rep.trace(1);
                match drive::guard(|| simfony::TemplateProgram::new(ttext.as_str()).map(|_| ())) {
                    Ok(Err(_)) => rep.class("twin-rejected"),
                    Ok(Ok(())) => {
                        rep.class("TWIN-ACCEPTED");
                        rep.violation("C10:out-of-scope-reference-accepted", format!("{family}: reference to `{n}` at a point where it is not in scope was accepted"), json!({"kind": "compile", "program": ttext, "expect": "reject", "observed": "accept"}));
                    }
                    Err(p) => rep.violation(format!("C10:panic:{}", drive::panic_site(&p)), format!("twin program panicked: {p}"), json!({"kind": "compile", "program": ttext, "expect": "reject", "observed": "panic"})),
                }
            }
        }
        if i % 5003 == 11 || rep.no_sample_yet() {
            rep.sample(5, || json!({"family": family, "program": text, "shadow_events": el.shadow_events, "scope_exits": el.scope_exits}));
        }
    });
    rep.finish(
        "state = one binding structure (deduplicated on the rendered program); after every statement the program asserts, for every visible name, the constant that the environment-stack oracle says it holds; non-trivial = structures with at least one shadowing event or scope exit",
        &["the environment stack of the elaborator is cross-checked against the generic R2 evaluator on every program", "all variables are u8 (a wrong lookup yields a wrong constant, caught by the asserts)"],
        true,
    )
}
