//! C20 — compile errors quote the source lines they point at.  Intrinsic oracle (message reader R7).

use crate::drive;
use crate::explore::par_for;
use crate::lang::*;
use crate::mutate;
use crate::props::c04;
use crate::report::Report;
use crate::tokens;
use serde_json::json;
use std::collections::HashSet;
use std::sync::Mutex;

/// Lines of a source text: a line ends at '\n'; the terminator is "\n" or "\r\n" and is not part of the
/// line. A final piece that is not followed by '\n' is a line of its own and is kept verbatim (a lone
/// trailing '\r' there is content, not a terminator); a final empty piece is not a line.
pub fn source_lines(text: &str) -> Vec<&str> {
    let mut v: Vec<&str> = text.split('\n').collect();
    let last = v.pop().unwrap_or("");
    let mut v: Vec<&str> = v.into_iter().map(|l| l.strip_suffix('\r').unwrap_or(l)).collect();
    if !last.is_empty() {
        v.push(last);
    }
    v
}

#[derive(Debug)]
pub struct Parsed {
    pub quoted: Vec<(usize, String)>,
    pub description: String,
    /// (first underlined column, 1-based, in characters; number of carets)
    pub underline: (usize, usize),
}

/// R7: read a rendered error. Err(reason) when the message does not have the documented shape.
pub fn read_message(msg: &str) -> Result<Parsed, String> {
    let lines: Vec<&str> = msg.split('\n').collect();
    if lines.is_empty() {
        return Err("empty message".into());
    }
    let is_bar = |l: &str| -> Option<String> {
        // "<spaces>|<rest>"
        let t = l.trim_start_matches(' ');
        if t.len() < l.len() || l.starts_with('|') {
            t.strip_prefix('|').map(|r| r.to_string())
        } else {
            None
        }
    };
    let quoted_line = |l: &str| -> Option<(usize, String)> {
        let t = l.trim_start_matches(' ');
        let digits: String = t.chars().take_while(|c| c.is_ascii_digit()).collect();
        if digits.is_empty() {
            return None;
        }
        let rest = &t[digits.len()..];
        let rest = rest.strip_prefix(" | ").or_else(|| rest.strip_prefix(" |"))?;
        Some((digits.parse().ok()?, rest.to_string()))
    };
    // header
    match is_bar(lines[0]) {
        Some(r) if r.is_empty() => {}
        _ => return Err(format!("first line is not the `  |` header: {:?}", lines[0])),
    }
    let mut i = 1;
    let mut quoted = vec![];
    while i < lines.len() {
        if let Some(q) = quoted_line(lines[i]) {
            quoted.push(q);
            i += 1;
        } else {
            break;
        }
    }
    if i >= lines.len() {
        return Err("no underline / description line".into());
    }
    let Some(rest) = is_bar(lines[i]) else { return Err(format!("expected the `  | ^^^ description` line, found {:?}", lines[i])) };
    let after_spaces = rest.trim_start_matches(' ');
    let after = after_spaces.trim_start_matches('^');
    let underline = (rest.len() - after_spaces.len(), after_spaces.len() - after.len());
    let mut description = after.trim_start_matches(' ').to_string();
    for l in &lines[i + 1..] {
        description.push('\n');
        description.push_str(l);
    }
    Ok(Parsed { quoted, description, underline })
}

/// Single-case verdict for replays: None when the text compiles; Err(reason) when the message is wrong.
pub fn verdict(text: &str) -> Option<Result<(), String>> {
    let err = match drive::guard(|| simfony::TemplateProgram::new(text).map(|_| ())) {
        Ok(Err(e)) => e,
        _ => return None,
    };
    let src = source_lines(text);
    let p = match read_message(&err) {
        Ok(p) => p,
        Err(why) => return Some(Err(format!("shape: {why}"))),
    };
    if p.description.trim().is_empty() {
        return Some(Err("empty description".into()));
    }
    for (k, (n, t)) in p.quoted.iter().enumerate() {
        if *n == 0 || *n > src.len() {
            return Some(Err(format!("line {n} outside the file")));
        }
        if src[*n - 1] != t {
            return Some(Err(format!("line {n} quoted as {t:?}, source has {:?}", src[*n - 1])));
        }
        if k > 0 && p.quoted[k - 1].0 + 1 != *n {
            return Some(Err("line numbers not consecutive".into()));
        }
    }
    if let Some(why) = underline_outside(&p) {
        return Some(Err(why));
    }
    Some(Ok(()))
}

/// The location must lie inside the file: for a message that quotes one line, the underlined columns must be columns
/// of that line (one column past its end is allowed: errors located at the end of a line).
fn underline_outside(p: &Parsed) -> Option<String> {
    if p.quoted.len() != 1 || p.underline.1 == 0 {
        return None;
    }
    let chars = p.quoted[0].1.chars().count();
    let (start, len) = p.underline;
    if start + len - 1 > chars + 1 {
        return Some(format!("underline covers columns {start}..{} of line {}, which has {chars} columns", start + len - 1, p.quoted[0].0));
    }
    None
}

/// Judge one text: if compilation fails, the message must quote its lines verbatim.
pub fn judge(rep: &Report, text: &str, origin: &str) {
    if text.is_empty() {
        return;
    }
    rep.eval(1);
    let err = match drive::guard(|| simfony::TemplateProgram::new(text).map(|_| ())) {
        Ok(Err(e)) => e,
        Ok(Ok(())) => {
            rep.class("accepted(outside the quantifier)");
            return;
        }
        Err(_) => {
            rep.class("panicked(C06's subject)");
            return;
        }
    };
    rep.trace(1);
    let replay = |what: &str| json!({"kind": "error_message", "program": text, "message": err, "what": what, "origin": origin});
    let src = source_lines(text);
    match read_message(&err) {
        Err(why) => {
            rep.class("MESSAGE-SHAPE");
            rep.violation("C20:message-shape", format!("error message does not have the documented shape ({why}); origin {origin}"), replay(&why));
        }
        Ok(p) => {
            if p.description.trim().is_empty() {
                rep.class("EMPTY-DESCRIPTION");
                rep.violation("C20:empty-description", format!("error message ends without a description; origin {origin}"), replay("empty description"));
                return;
            }
            if p.quoted.is_empty() {
                rep.class("no-line-quoted(vacuous: location at end of file)");
                return;
            }
            let mut ok = true;
            for (k, (n, t)) in p.quoted.iter().enumerate() {
                if *n == 0 || *n > src.len() {
                    ok = false;
                    rep.violation("C20:quoted-line-number-outside-file", format!("message quotes line {n} of a {}-line file; origin {origin}", src.len()), replay("line number outside the file"));
                    break;
                }
                if src[*n - 1] != t {
                    ok = false;
                    rep.violation("C20:quoted-text-differs", format!("message quotes line {n} as {t:?} but the source line is {:?}; origin {origin}", src[*n - 1]), replay("quoted text differs"));
                    break;
                }
                if k > 0 && p.quoted[k - 1].0 + 1 != *n {
                    ok = false;
                    rep.violation("C20:quoted-lines-not-consecutive", format!("quoted line numbers {} then {n}; origin {origin}", p.quoted[k - 1].0), replay("not consecutive"));
                    break;
                }
            }
            if ok {
                if let Some(why) = underline_outside(&p) {
                    rep.class("UNDERLINE-OUTSIDE-LINE");
                    rep.violation("C20:location-outside-line", format!("{why}; origin {origin}"), replay("underline outside the quoted line"));
                    return;
                }
                rep.class("quotes-ok");
                let err_line = src[p.quoted[0].0 - 1];
                if p.quoted.len() >= 2 || err_line.contains('\t') || !err_line.is_ascii() {
                    rep.nontrivial(1);
                }
            } else {
                rep.class("QUOTES-WRONG");
            }
        }
    }
}

pub fn run(rep: &Report) -> i32 {
    let quick = rep.is_quick();
    let seen: Mutex<HashSet<u64>> = Mutex::new(HashSet::new());
    let fresh = |t: &str| seen.lock().unwrap().insert(crate::report::fxhash(t.as_bytes()));
    let fresh = &fresh;
    let layouts = [Layout::Pretty, Layout::PrettyCrlf, Layout::Tabs, Layout::LineComments, Layout::TokenPerLine, Layout::TokenPerLineCrlf, Layout::OneLine, Layout::Comments, Layout::NonAsciiComments, Layout::CrOnly];
    rep.set("bounds", json!({"layouts": layouts.iter().map(|l| format!("{l:?}")).collect::<Vec<_>>(), "variants": ["as rendered", "without the trailing line terminator", "with a leading non-ASCII comment line", "with a lone carriage return appended", "below two empty lines", "below an empty CRLF line"], "sources": ["all M_ast near misses of the C04 bases", "single-token edits of the kitchen-sink programs and the shipped examples, LF and CRLF"]}));
    // (1) near misses in every line structure
    let bases = c04::base_programs(quick);
    par_for(&bases, rep, 1, |bi, (name, base)| {
        if quick && bi >= 4 && bi % 4 != 0 {
            return;
        }
        let ms = mutate::near_misses_for(name, base, rep.is_quick());
        rep.transition(ms.len() as u64);
        for (mi, (op, m)) in ms.iter().enumerate() {
            if rep.out_of_time() {
                break;
            }
            for (li, l) in layouts.iter().enumerate() {
                if li >= 2 && (mi + li) % (if quick { 6 } else { 2 }) != 0 {
                    continue;
                }
                let text = m.render_with(RenderOpts::default(), *l);
                let variants = [text.clone(), text.trim_end_matches(['\n', '\r']).to_string(), format!("// é嗨 comment before the error ü\n{text}"), format!("{text}\r"), format!("\n\n{text}"), format!("\r\n{text}")];
                for (vi, t) in variants.iter().enumerate() {
                    if vi > 0 && (mi + vi) % 3 != 0 {
                        continue;
                    }
                    if fresh(t) {
                        rep.state();
                        rep.transition(1);
                        judge(rep, t, &format!("{op} on {name} layout {l:?} variant {vi}"));
                    }
                }
            }
        }
    });
    // (2) token mutants, LF and CRLF
    let mut seeds = tokens::kitchen_sink();
    let mut ex = tokens::examples();
    ex.sort_by_key(|e| e.1.len());
    seeds.extend(ex.into_iter().take(if quick { 2 } else { 24 }));
    let alpha = tokens::alphabet(quick, false);
    tokens::par_single_edits(rep, &seeds, &alpha, &|m, origin| {
        if tokens::bracket_depth(m) > 12 {
            return;
        }
        if fresh(m) {
            rep.state();
            rep.transition(1);
            judge(rep, m, origin);
        }
        let crlf = m.replace("\r\n", "\n").replace('\n', "\r\n");
        if fresh(&crlf) {
            rep.state();
            rep.transition(1);
            judge(rep, &crlf, &format!("{origin} (CRLF)"));
        }
    });
    rep.sample(3, || {
        let t = "fn main() {\n\tlet x: u8 = 256; // é\n}\n";
        json!({"text": t, "message": simfony::TemplateProgram::new(t).err()})
    });
    rep.finish(
        "state = one rejected source text (deduplicated); non-trivial = messages that quote at least two lines or whose quoted line contains a tab / non-ASCII character; messages quoting no line (location at end of file) are counted separately and satisfy the statement vacuously",
        &["a line is a maximal run of characters between line feeds, with one trailing carriage return removed"],
        true,
    )
}
