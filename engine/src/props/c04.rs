//! C04 — the front end accepts exactly the well-typed programs.  Oracle: R1.

use crate::drive;
use crate::explore::par_for;
use crate::families;
use crate::gen;
use crate::lang::*;
use crate::mutate;
use crate::props::c01;
use crate::refmodel::{self, Verdict};
use crate::report::Report;
use serde_json::json;
use std::collections::{BTreeMap, HashSet};
use std::sync::Mutex;

/// Base programs: the static-rules family plus every k-th wrapped member of family F-A (and F-B in thorough).
pub fn base_programs(quick: bool) -> Vec<(String, Program)> {
    let mut out = families::static_family();
    let fams = c01::families(quick);
    let (jobs, fns, _, _) = c01::enumerate(&fams[..if quick { 1 } else { 2 }], None);
    let stride = if quick { 61 } else { 7 };
    for (i, job) in jobs.iter().enumerate() {
        if i % stride != 0 {
            continue;
        }
        let fam = &fams[job.fam].1;
        let free = gen::free_typed(&job.expr, &fam.universe);
        let extra = gen::fns_for(&job.expr, &fns[job.fam]);
        out.push((format!("F-{}#{}", fams[job.fam].0, i), gen::wrap_term(&job.expr, &job.ty, &free, &extra)));
    }
    out
}

pub fn op_class(op: &str) -> String {
    op.split('@').next().unwrap_or(op).to_string()
}

pub fn run(rep: &Report) -> i32 {
    let quick = rep.is_quick();
    let bases = base_programs(quick);
    rep.set("bounds", json!({"base_programs": bases.len(), "edits": "every M_ast operator at every site, one edit per mutant"}));
    let seen: Mutex<HashSet<u64>> = Mutex::new(HashSet::new());
    let per_op: Mutex<BTreeMap<String, (u64, u64, u64)>> = Mutex::new(BTreeMap::new());
    par_for(&bases, rep, 1, |bi, (name, base)| {
        // the base itself: well-typed per R1 and accepted
        let text = base.render();
        let (v, _) = refmodel::check_program(base);
        if v != Verdict::WellTyped {
            rep.machinery(format!("base program {name} is not well-typed per R1: {v:?}"));
            return;
        }
        rep.state();
        judge(rep, &text, &v, "base", name);
        let ms = mutate::near_misses_for(name, base, rep.is_quick());
        rep.transition(ms.len() as u64);
        for (op, m) in ms {
            if rep.out_of_time() {
                break;
            }
            let mt = m.render();
            if !seen.lock().unwrap().insert(crate::report::fxhash(mt.as_bytes())) {
                continue;
            }
            rep.state();
            let (v, _) = refmodel::check_program(&m);
            {
                let mut po = per_op.lock().unwrap();
                let e = po.entry(op_class(&op)).or_insert((0, 0, 0));
                match v {
                    Verdict::WellTyped => e.0 += 1,
                    Verdict::IllTyped(_) => e.1 += 1,
                    Verdict::Unspecified(_) => e.2 += 1,
                }
            }
            judge(rep, &mt, &v, &op, name);
            if (bi == 1 && op.starts_with("expr@7")) || rep.no_sample_yet() {
                rep.sample(4, || json!({"base": name, "operator": op, "r1": format!("{v:?}"), "program": mt}));
            }
        }
    });
    let po = per_op.into_inner().unwrap();
    rep.set("per_operator_welltyped_illtyped_unspecified", json!(po.iter().map(|(k, v)| json!({"operator": k, "well_typed": v.0, "ill_typed": v.1, "unspecified": v.2})).collect::<Vec<_>>()));
    if rep.caps_hit.lock().unwrap().is_empty() {
        for opc in ["type", "pattern", "expr"] {
            match po.get(opc) {
                Some((w, i, _)) if *w > 0 && *i > 0 => {}
                other => rep.machinery(format!("vacuity guard: operator {opc} did not produce both well-typed and ill-typed mutants: {other:?}")),
            }
        }
    }
    rep.finish(
        "state = one program text (base or single-edit mutant, deduplicated); non-trivial = mutants R1 classifies ill-typed plus mutants that stay well-typed (both must exist per operator); unspecified mutants are counted and not judged",
        &["R1 (harness type checker) written from book/src/*.md and C04's statement", "cases the book leaves open (alias / function redefinition, repeated parameter names, reserved words as names) are not judged"],
        true,
    )
}

fn judge(rep: &Report, text: &str, v: &Verdict, op: &str, base: &str) {
    if let Verdict::Unspecified(_) = v {
        rep.class("unspecified(not judged)");
        return;
    }
    rep.eval(1);
    rep.trace(1);
    let got = drive::guard(|| simfony::TemplateProgram::new(text).map(|_| ()));
    let replay = |expect: &str, observed: &str| json!({"kind": "compile", "program": text, "expect": expect, "observed": observed, "operator": op, "base": base});
    match (got, v) {
        (Err(p), _) => {
            rep.class("panic");
            rep.violation(format!("C04:panic:{}", drive::panic_site(&p)), format!("TemplateProgram::new panicked ({p}) on a {} mutant of {base}", op_class(op)), replay(if *v == Verdict::WellTyped { "accept" } else { "reject" }, "panic"));
        }
        (Ok(Ok(())), Verdict::WellTyped) => {
            rep.class("accepted-welltyped");
            if op != "base" {
                rep.nontrivial(1);
            }
        }
        (Ok(Err(_)), Verdict::IllTyped(_)) => {
            rep.class("rejected-illtyped");
            rep.nontrivial(1);
        }
        (Ok(Ok(())), Verdict::IllTyped(why)) => {
            rep.class("ACCEPTED-ILLTYPED");
            rep.violation(format!("C04:accepted-ill-typed:{}:{}", op_class(op), why_class(why)), format!("ill-typed program accepted ({why}); {op} on {base}"), replay("reject", "accept"));
        }
        (Ok(Err(e)), Verdict::WellTyped) => {
            rep.class("REJECTED-WELLTYPED");
            rep.violation(format!("C04:rejected-well-typed:{}:{}", op_class(op), err_class(&e)), format!("well-typed program rejected: {}; {op} on {base}", last_line(&e)), replay("accept", "reject"));
        }
        (_, Verdict::Unspecified(_)) => unreachable!(),
    }
}

fn why_class(why: &str) -> String {
    why.split(|c: char| c.is_ascii_digit()).next().unwrap_or(why).trim().replace(' ', "-")
}

pub fn last_line(e: &str) -> String {
    e.lines().last().unwrap_or("").trim().chars().take(160).collect()
}

fn err_class(e: &str) -> String {
    let l = last_line(e);
    let l = l.trim_start_matches(|c: char| c == '|' || c == '^' || c.is_whitespace());
    l.split(|c: char| c == '`' || c == ':').next().unwrap_or("").trim().replace(' ', "-")
}
