//! C02 — what `satisfy` returns spends the committed CMR.  Intrinsic oracle over a "witness-flow" family.

use crate::drive::{self, RunOutcome};
use crate::explore::par_for;
use crate::gen;
use crate::lang::*;
use crate::props::common::*;
use crate::refmodel::{same_layout, zero_val};
use crate::report::Report;
use serde_json::json;
use std::collections::BTreeSet;

pub fn wide_types(quick: bool) -> Vec<Ty> {
    let u = Ty::U;
    let mut v = vec![
        u(8), Ty::Bool, u(1), u(16), Ty::tup(vec![u(8), u(16)]), Ty::opt(u(8)), Ty::either(u(8), u(16)), Ty::arr(u(8), 2), Ty::list(u(8), 4), Ty::unit(), u(2), Ty::tup(vec![u(8)]),
        Ty::tup(vec![Ty::either(u(8), u(256)), Ty::either(u(8), u(8)), Ty::either(u(8), u(8))]),
    ];
    if !quick {
        v.extend([u(256), u(64), Ty::arr(u(8), 3), Ty::list(Ty::Bool, 2), Ty::opt(Ty::tup(vec![u(1), u(8)])), Ty::either(Ty::unit(), Ty::Bool), Ty::tup(vec![Ty::Bool, u(1), u(2)]), Ty::arr(u(1), 5), Ty::list(u(16), 8)]);
    }
    v
}

pub const FLOWS: [&str; 17] = [
    "ignore-pattern", "unused-variable", "partial-pattern", "fn-ignores", "fn-returns", "in-left", "in-right", "in-some", "in-tuple", "in-array", "in-list", "ignored-arm-payload", "dbg", "cast", "block-result",
    "jet-inspected", "partially-inspected",
];

/// Statements (and helper functions) that let witness `wname : ty` flow in the given way.
/// Returns None when the flow does not apply to the type.
pub fn flow(h: &mut gen::Helpers, fl: &str, wname: &str, ty: &Ty, k: usize) -> Option<Vec<Stmt>> {
    let w = Expr::Witness(wname.to_string());
    let v = format!("v{k}");
    let first_component = |ty: &Ty| -> Option<(Pat, Ty, String)> {
        match ty {
            Ty::Tuple(ts) if ts.len() >= 2 => {
                let mut ps: Vec<Pat> = ts.iter().map(|_| Pat::Ignore).collect();
                ps[0] = Pat::Id(format!("c{k}"));
                Some((Pat::Tuple(ps), ts[0].clone(), format!("c{k}")))
            }
            Ty::Array(t, n) if *n >= 2 => {
                let mut ps: Vec<Pat> = (0..*n).map(|_| Pat::Ignore).collect();
                ps[n - 1] = Pat::Id(format!("c{k}"));
                Some((Pat::Array(ps), (**t).clone(), format!("c{k}")))
            }
            _ => None,
        }
    };
    Some(match fl {
        "ignore-pattern" => vec![let_(Pat::Ignore, ty.clone(), w)],
        "unused-variable" => vec![let_(Pat::Id(v), ty.clone(), w)],
        "partial-pattern" => {
            let (p, ct, cn) = first_component(ty)?;
            vec![let_(p, ty.clone(), w), Stmt::Expr(assert_(h.eq_call(&ct, var(&cn), var(&cn))))]
        }
        "fn-ignores" => {
            let f = format!("ign_{}", ty.mangle());
            h.add_fn(FnDef { name: f.clone(), params: vec![("a".into(), ty.clone())], ret: Some(Ty::U(8)), body: (vec![], Some(Box::new(dec(7)))) });
            vec![let_(Pat::Id(v.clone()), Ty::U(8), fcall(&f, vec![w])), Stmt::Expr(assert_(jet("eq_8", vec![var(&v), dec(7)])))]
        }
        "fn-returns" => {
            let f = format!("idt_{}", ty.mangle());
            h.add_fn(FnDef { name: f.clone(), params: vec![("a".into(), ty.clone())], ret: Some(ty.clone()), body: (vec![], Some(Box::new(var("a")))) });
            vec![let_(Pat::Id(v), ty.clone(), fcall(&f, vec![w]))]
        }
        "in-left" => vec![let_(Pat::Id(v), Ty::either(ty.clone(), Ty::U(8)), Expr::Left(Box::new(w)))],
        "in-right" => vec![let_(Pat::Id(v), Ty::either(Ty::Bool, ty.clone()), Expr::Right(Box::new(w)))],
        "in-some" => vec![let_(Pat::Id(v), Ty::opt(ty.clone()), Expr::Some(Box::new(w)))],
        "in-tuple" => vec![let_(Pat::Id(v), Ty::tup(vec![Ty::U(8), ty.clone()]), Expr::Tuple(vec![dec(1), w]))],
        "in-array" => vec![let_(Pat::Id(v), Ty::arr(ty.clone(), 2), Expr::Array(vec![w, crate::refmodel::val_expr(&zero_val(ty), ty)]))],
        "in-list" => vec![let_(Pat::Id(v), Ty::list(ty.clone(), 4), Expr::List(vec![w]))],
        "ignored-arm-payload" => {
            // the witness itself is Either<T, u8>; the Left arm ignores its payload
            let et = Ty::either(ty.clone(), Ty::U(8));
            vec![
                let_(Pat::Id(v.clone()), Ty::U(8), match_(Expr::Witness(wname.to_string()), (MPat::Left("l".into(), ty.clone()), dec(1)), (MPat::Right("r".into(), Ty::U(8)), var("r")))),
                Stmt::Expr(assert_(jet("eq_8", vec![var(&v), var(&v)]))),
                // (type of the witness for the map is `et`)
                let_(Pat::Ignore, Ty::unit(), Expr::Tuple(vec![])),
            ]
            .into_iter()
            .map(|s| {
                let _ = &et;
                s
            })
            .collect()
        }
        "dbg" => vec![let_(Pat::Id(v), ty.clone(), call(CallName::Dbg, vec![w]))],
        "cast" => {
            let target = cast_target(ty)?;
            vec![let_(Pat::Id(v), target, cast(ty.clone(), w))]
        }
        "block-result" => vec![let_(Pat::Id(v), ty.clone(), block(vec![], Some(w)))],
        "jet-inspected" => {
            let mut s = vec![let_(Pat::Id(v.clone()), ty.clone(), w)];
            s.push(Stmt::Expr(assert_(h.eq_call(ty, var(&v), var(&v)))));
            s
        }
        "partially-inspected" => {
            let (p, ct, cn) = first_component(ty)?;
            vec![let_(p, ty.clone(), w), Stmt::Expr(assert_(h.eq_call(&ct, var(&cn), crate::refmodel::val_expr(&zero_val(&ct), &ct))))]
        }
        _ => return None,
    })
}

fn cast_target(ty: &Ty) -> Option<Ty> {
    let u = Ty::U;
    let cands = [Ty::tup(vec![u(4), u(4)]), Ty::tup(vec![u(8), u(8)]), u(16), Ty::either(Ty::unit(), u(8)), u(1), Ty::Bool, Ty::tup(vec![u(1), u(1)]), Ty::tup(vec![u(8), Ty::tup(vec![u(8), u(8)])]), Ty::arr(u(8), 2), Ty::opt(Ty::unit())];
    cands.iter().find(|c| *c != ty && same_layout(c, ty)).cloned()
}

/// The declared type of the witness for a flow (the ignored-arm flow wraps it).
pub fn witness_ty(fl: &str, ty: &Ty) -> Ty {
    if fl == "ignored-arm-payload" {
        Ty::either(ty.clone(), Ty::U(8))
    } else {
        ty.clone()
    }
}

pub struct FlowProgram {
    pub text: String,
    pub witnesses: Vec<(String, Ty)>,
    pub label: String,
    pub uninspected_by_construction: bool,
}

pub fn flow_programs(quick: bool) -> Vec<FlowProgram> {
    let types = wide_types(quick);
    let mut out = vec![];
    let mut push = |parts: &[(&str, &Ty)]| {
        let mut h = gen::Helpers::default();
        let mut stmts = vec![];
        let mut wits = vec![];
        let mut unins = false;
        for (k, (fl, ty)) in parts.iter().enumerate() {
            let wn = format!("W{k}");
            let Some(s) = flow(&mut h, fl, &wn, ty, k) else { return };
            stmts.extend(s);
            wits.push((wn, witness_ty(fl, ty)));
            if *fl != "jet-inspected" {
                unins = true;
            }
        }
        let mut items: Vec<Item> = h.fns.into_iter().map(Item::Fn).collect();
        items.push(Item::Fn(FnDef { name: "main".into(), params: vec![], ret: None, body: (stmts, None) }));
        out.push(FlowProgram { text: Program { items }.render(), witnesses: wits, label: parts.iter().map(|(f, t)| format!("{f}:{}", t.render())).collect::<Vec<_>>().join(" + "), uninspected_by_construction: unins });
    };
    // one witness: every flow x every type
    for fl in FLOWS {
        for t in &types {
            push(&[(fl, t)]);
        }
    }
    // two witnesses: every ordered pair of flows over a type stride
    for (i, f0) in FLOWS.iter().enumerate() {
        for (j, f1) in FLOWS.iter().enumerate() {
            for (k, t0) in types.iter().enumerate() {
                let t1 = &types[(k * 5 + i + j) % types.len()];
                if quick && (i + j + k) % 3 != 0 {
                    continue;
                }
                push(&[(f0, t0), (f1, t1)]);
            }
        }
    }
    // three witnesses: flows cyclic
    {
        for (i, f0) in FLOWS.iter().enumerate() {
            for (k, t0) in types.iter().enumerate() {
                let f1 = FLOWS[(i + 3) % FLOWS.len()];
                let f2 = FLOWS[(i + 7) % FLOWS.len()];
                push(&[(f0, t0), (f1, &types[(k + 2) % types.len()]), (f2, &types[(k + 5) % types.len()])]);
            }
        }
    }
    out
}

pub fn run(rep: &Report) -> i32 {
    let quick = rep.is_quick();
    let mut progs = flow_programs(quick);
    // the shipped examples with an empty witness map (satisfy zero-fills) are part of the space too
    for (name, text) in crate::tokens::examples() {
        progs.push(FlowProgram { text, witnesses: vec![], label: format!("example {name}"), uninspected_by_construction: false });
    }
    // witnesses far larger than any example: list bounds 1024 .. 4096, byte strings above 256 bits of awkward length;
    // never inspected, or only their small neighbour inspected
    for ty in [Ty::list(Ty::U(8), 1024), Ty::list(Ty::U(8), 2048), Ty::list(Ty::U(16), 4096), Ty::arr(Ty::U(8), 33), Ty::arr(Ty::U(8), 100), Ty::arr(Ty::U(8), 65)] {
        let t = ty.render();
        progs.push(FlowProgram { text: format!("fn main() {{\n    let x: {t} = witness::L;\n}}\n"), witnesses: vec![("L".into(), ty.clone())], label: format!("large unused-variable:{t}"), uninspected_by_construction: true });
        let pair = Ty::tup(vec![Ty::U(8), ty.clone()]);
        progs.push(FlowProgram {
            text: format!("fn main() {{\n    let (a, l): (u8, {t}) = witness::P;\n    assert!(jet::eq_8(a, a));\n}}\n"),
            witnesses: vec![("P".into(), pair)],
            label: format!("large partial-pattern:{t}"),
            uninspected_by_construction: true,
        });
    }
    // the same polymorphic expression twice in one environment at two different types that nothing in the program pins
    // down (`(None, None)` at `(Option<u8>, Option<u16>)` ...), next to a fully inspected witness: nodes that differ
    // only in such a type must not upset the sharing of the encoded program
    {
        let twins: [(&str, &str); 10] = [
            ("none-none", "    let p: (Option<u8>, Option<u16>) = (None, None);\n"),
            ("left-left", "    let p: (Either<u8, u16>, Either<u8, u32>) = (Left(1), Left(1));\n"),
            ("right-right", "    let p: (Either<u16, u8>, Either<u32, u8>) = (Right(1), Right(1));\n"),
            ("empty-lists", "    let p: (List<u8, 4>, List<u16, 4>) = (list![], list![]);\n"),
            ("empty-arrays", "    let p: ([u8; 0], [u16; 0]) = ([], []);\n"),
            ("none-none-none", "    let p: (Option<u8>, Option<u16>, Option<u32>) = (None, None, None);\n"),
            ("is-none-twice", "    let p: (bool, bool) = (is_none::<u8>(None), is_none::<u16>(None));\n    let (x, y): (bool, bool) = p;\n    assert!(x);\n"),
            ("none-none-then-is-none", "    let p: (Option<u8>, Option<u16>) = (None, None);\n    let (x, y): (Option<u8>, Option<u16>) = p;\n    assert!(is_none::<u8>(x));\n    assert!(is_none::<u16>(y));\n"),
            ("array-of-nones-beside-none", "    let p: ([Option<u8>; 2], Option<u16>) = ([None, None], None);\n"),
            ("nested", "    let p: (Option<Option<u8>>, Option<Option<u16>>) = (Some(None), Some(None));\n"),
        ];
        for (label, body) in twins {
            for (wt, inspect) in [("u8", "    assert!(jet::eq_8(w, w));\n"), ("u16", "    assert!(jet::eq_16(w, w));\n")] {
                for before in [true, false] {
                    let wpart = format!("    let w: {wt} = witness::W0;\n{inspect}");
                    let text = if before { format!("fn main() {{\n{wpart}{body}}}\n") } else { format!("fn main() {{\n{body}{wpart}}}\n") };
                    progs.push(FlowProgram { text, witnesses: vec![("W0".into(), if wt == "u8" { Ty::U(8) } else { Ty::U(16) })], label: format!("twins {label} ({wt} witness {})", if before { "before" } else { "after" }), uninspected_by_construction: false });
                }
            }
        }
        // the same through call arguments
        for (label, f, call) in [
            ("call-none-none", "fn two(a: Option<u8>, b: Option<u16>) -> bool {\n    true\n}\n", "    assert!(two(None, None));\n"),
            ("call-left-left", "fn two(a: Either<u8, u16>, b: Either<u8, u32>) -> bool {\n    true\n}\n", "    assert!(two(Left(1), Left(1)));\n"),
        ] {
            progs.push(FlowProgram { text: format!("{f}fn main() {{\n    let w: u8 = witness::W0;\n    assert!(jet::eq_8(w, w));\n{call}}}\n"), witnesses: vec![("W0".into(), Ty::U(8))], label: format!("twins {label}"), uninspected_by_construction: false });
        }
    }
    rep.set("bounds", json!({"programs": progs.len(), "flows": FLOWS, "types": wide_types(quick).iter().map(|t| t.render()).collect::<Vec<_>>(), "witnesses_per_program": "1..3", "maps": "complete product of per-witness value alphabets (<= 4 values each) + each name missing + empty map"}));
    par_for(&progs, rep, 8, |i, p| {
        drive::DUMMY.with(|env| check_flow(rep, p, i, env));
    });
    rep.finish(
        "state = one witness-flow program; transitions = witness maps; non-trivial = programs with at least one witness that is not (fully) inspected by a jet",
        &["under-constrained is decided by simplicity-lang alone: the principal type it infers for a witness node of the encoded commitment differs from the compile-time type", "simplicity-lang's decoder / Bit Machine are trusted"],
        true,
    )
}

fn check_flow(rep: &Report, p: &FlowProgram, idx: usize, env: &drive::Env) {
    rep.state();
    rep.eval(1);
    let is_example = p.label.starts_with("example ");
    let built = match drive::build(&p.text, simfony::Arguments::default(), false) {
        Ok(b) => b,
        Err(drive::CompileOutcome::InstantiateErr(_)) if is_example => {
            rep.class("example-needs-arguments(skipped)");
            return;
        }
        Err(o) => {
            rep.violation("C02:flow-program-not-compiled", format!("{}: {o:?}", p.label), json!({"kind": "compile", "program": p.text, "expect": "accept", "observed": "reject"}));
            return;
        }
    };
    if p.uninspected_by_construction {
        rep.nontrivial(1);
    }
    // `None` = simplicity-lang cannot even re-read the encoded commitment (e.g. "must have maximal sharing"):
    // the compile-time typing is not the principal typing, which is the same root cause
    let under = drive::guard(|| drive::under_constrained_witnesses(&built.compiled)).ok().flatten();
    // twins programs: their only witness is anchored and fully inspected by construction; the commitment classifier
    // cannot re-read their commitment (the twin nodes), which says nothing about the witness
    let under_n = if p.label.starts_with("twins ") { 0 } else { under.map(|u| u.1).unwrap_or(1) };
    rep.class(if under_n > 0 { "program-with-under-constrained-witness" } else { "program-fully-constrained" });
    // witness maps
    let lists: Vec<Vec<Val>> = p.witnesses.iter().map(|(_, t)| gen::vals(t, 4).into_iter().take(4).collect()).collect();
    let sizes: Vec<usize> = lists.iter().map(|l| l.len()).collect();
    let mut maps: Vec<Vec<(String, Val, Ty)>> = vec![];
    crate::explore::product(&sizes, |ix| {
        maps.push(p.witnesses.iter().enumerate().map(|(k, (n, t))| (n.clone(), lists[k][ix[k]].clone(), t.clone())).collect());
    });
    let full = maps.first().cloned().unwrap_or_default();
    for k in 0..full.len() {
        let mut m = full.clone();
        m.remove(k);
        maps.push(m);
    }
    if !full.is_empty() {
        maps.push(vec![]);
    }
    let mut redeem_cmrs = BTreeSet::new();
    for m in &maps {
        rep.transition(1);
        rep.eval(1);
        rep.trace(1);
        let out = drive::run(&built, drive::witness_map(m), env);
        rep.class(out.class());
        redeem_cmrs.insert(out.class() == "cmr-mismatch");
        let bad = match &out {
            RunOutcome::Success | RunOutcome::Failure(_) | RunOutcome::SatisfyErr(_) => None,
            other => Some(other.clone()),
        };
        if let Some(o) = bad {
            let detail = match &o {
                RunOutcome::ExecPanic(p) | RunOutcome::SatisfyPanic(p) => format!(":{}", drive::panic_site(p)),
                _ => String::new(),
            };
            let sig = format!("C02:{}:{}{}", o.class(), if under_n > 0 { "under-constrained-witness" } else { "all-witnesses-constrained" }, detail);
            rep.violation(sig, format!("{}: satisfy returned a program that does not spend the commitment: {o:?}", p.label), run_replay(&p.text, m, false, "success|failure", o.class()));
        }
    }
    if idx % 211 == 3 || rep.no_sample_yet() {
        rep.sample(5, || json!({"label": p.label, "program": p.text, "maps": maps.len(), "under_constrained_witness_nodes": under_n}));
    }
}
