//! C13 — jets: arity, order, result type, closed-form meaning.

use crate::report::Report;
use simfony::simplicity::jet::Elements;

pub fn dump_jets() {
    println!("# frozen snapshot of the pinned release's jet signature table: name|param types (&-separated)|result type");
    let mut lines = vec![];
    for jet in Elements::ALL {
        let name = jet.to_string();
        let src: Vec<String> = simfony::jet::source_type(jet).iter().map(|t| t.resolve_builtin().expect("builtin").to_string()).collect();
        let dst = simfony::jet::target_type(jet).resolve_builtin().expect("builtin").to_string();
        lines.push(format!("{}|{}|{}", name, src.join("&"), dst));
    }
    lines.sort();
    for l in lines {
        println!("{l}");
    }
}

pub fn run(_rep: &Report) -> i32 {
    2
}
