//! C13 — jets: arity, order, result type, closed-form meaning.

use crate::drive;
use crate::explore::{par_for, product};
use crate::gen;
use crate::jets;
use crate::lang::*;
use crate::props::common::*;
use crate::refmodel::val_expr;
use crate::report::Report;
use serde_json::json;
use simfony::simplicity::jet::Elements;

pub fn dump_jets() {
    println!("# frozen snapshot of the pinned release's jet signature table: name|param types (&-separated)|result type|param types as documented (with builtin aliases)|result type as documented");
    let mut lines = vec![];
    for jet in Elements::ALL {
        let name = jet.to_string();
        let src: Vec<String> = simfony::jet::source_type(jet).iter().map(|t| t.resolve_builtin().expect("builtin").to_string()).collect();
        let dst = simfony::jet::target_type(jet).resolve_builtin().expect("builtin").to_string();
        // the documented (aliased) spelling of the same signature
        let src_a: Vec<String> = simfony::jet::source_type(jet).iter().map(|t| t.to_string()).collect();
        let dst_a = simfony::jet::target_type(jet).to_string();
        lines.push(format!("{}|{}|{}|{}|{}", name, src.join("&"), dst, src_a.join("&"), dst_a));
    }
    lines.sort();
    for l in lines {
        println!("{l}");
    }
}

fn call_program(name: &str, arg_tys: &[Ty], ret: &Ty) -> String {
    let args: Vec<Expr> = (0..arg_tys.len()).map(|i| var(&format!("a{i}"))).collect();
    let mut stmts: Vec<Stmt> = arg_tys.iter().enumerate().map(|(i, t)| let_(Pat::Id(format!("a{i}")), t.clone(), Expr::Witness(format!("A{i}")))).collect();
    stmts.push(let_(Pat::id("r"), ret.clone(), jet(name, args)));
    Program { items: vec![Item::Fn(FnDef { name: "main".into(), params: vec![], ret: None, body: (stmts, None) })] }.render()
}

pub fn run(rep: &Report) -> i32 {
    let quick = rep.is_quick();
    // the set of jets the *library* knows must be the documented set
    let mut impl_names: Vec<String> = Elements::ALL.iter().map(|j| j.to_string()).collect();
    impl_names.sort();
    let names = jets::all_names();
    if impl_names != names {
        rep.machinery("Elements::ALL differs from the frozen snapshot (simplicity-lang version changed?)");
    }
    let modelled: Vec<String> = names.iter().filter(|n| jets::has_model(n)).cloned().collect();
    rep.set("bounds", json!({"jets": names.len(), "jets_with_closed_form_model": modelled.len(), "argument_tuples_per_jet": if quick {"<= 512 (complete product of boundary sets)"} else {"<= 4096; all 2^16 operand pairs for 8-bit binary jets"}}));
    // (a) callable with the documented signature; reserved ones rejected; arity / order edits rejected
    par_for(&names, rep, 4, |i, name| {
        rep.state();
        let (ptys, ret) = jets::signature(name).unwrap();
        let reserved = name == "verify" || name == "check_sig_verify";
        let text = call_program(name, &ptys, &ret);
        rep.transition(1);
        rep.eval(1);
        rep.trace(1);
        let replay = |expect: &str, observed: &str, t: &str| json!({"kind": "compile", "program": t, "expect": expect, "observed": observed});
        match drive::build(&text, simfony::Arguments::default(), false) {
            Ok(_) if !reserved => rep.class("callable"),
            Err(drive::CompileOutcome::Rejected(_)) if reserved => {
                rep.class("reserved-rejected");
                return;
            }
            Ok(_) => {
                rep.violation("C13:reserved-jet-accepted", format!("reserved jet {name} can be called"), replay("reject", "accept", &text));
                return;
            }
            Err(e) => {
                rep.violation("C13:jet-not-callable", format!("jet::{name} with the documented signature ({} -> {}) not compiled: {e:?}", ptys.iter().map(|t| t.render()).collect::<Vec<_>>().join(", "), ret.render()), replay("accept", "reject", &text));
                return;
            }
        }
        // the same call with the types spelled as documented (builtin aliases such as Gej, Ctx8, Message64 ...)
        if let Some((ptys_doc, ret_doc)) = jets::signature_doc(name) {
            if ptys_doc != ptys || ret_doc != ret {
                let text_doc = call_program(name, &ptys_doc, &ret_doc);
                rep.transition(1);
                rep.eval(1);
                rep.trace(1);
                match drive::build(&text_doc, simfony::Arguments::default(), false) {
                    Ok(b2) => {
                        rep.class("callable-with-documented-aliases");
                        if let Ok(b1) = drive::build(&text, simfony::Arguments::default(), false) {
                            if b1.cmr != b2.cmr {
                                rep.violation("C13:aliased-signature-differs", format!("jet::{name}: the program written with the documented alias names compiles to a different program than with the aliases written out"), replay("equal-cmr", "different-cmr", &text_doc));
                            }
                        }
                    }
                    Err(e) => rep.violation("C13:jet-not-callable-with-documented-types", format!("jet::{name} with its documented signature ({} -> {}) not compiled: {e:?}", ptys_doc.iter().map(|t| t.render()).collect::<Vec<_>>().join(", "), ret_doc.render()), replay("accept", "reject", &text_doc)),
                }
            }
        }
        // near misses of the call
        let mut variants: Vec<(String, Vec<Ty>, Ty)> = vec![];
        if !ptys.is_empty() {
            variants.push(("argument-dropped".into(), ptys[..ptys.len() - 1].to_vec(), ret.clone()));
        }
        let mut more = ptys.clone();
        more.push(Ty::U(8));
        variants.push(("argument-added".into(), more, ret.clone()));
        for k in 0..ptys.len().saturating_sub(1) {
            if ptys[k] != ptys[k + 1] {
                let mut sw = ptys.clone();
                sw.swap(k, k + 1);
                variants.push((format!("arguments-{k}-{}-swapped", k + 1), sw, ret.clone()));
            }
        }
        let other_ret = if ret == Ty::U(8) { Ty::U(16) } else { Ty::U(8) };
        variants.push(("result-type-changed".into(), ptys.clone(), other_ret));
        for (what, tys, r) in variants {
            let t = call_program(name, &tys, &r);
            rep.transition(1);
            rep.eval(1);
            rep.trace(1);
            match drive::guard(|| simfony::TemplateProgram::new(t.as_str()).map(|_| ())) {
                Ok(Err(_)) => rep.class("near-miss-rejected"),
                Ok(Ok(())) => rep.violation(format!("C13:near-miss-accepted:{}", what.split('-').next().unwrap_or("")), format!("jet::{name} accepted with {what}"), replay("reject", "accept", &t)),
                Err(p) => rep.violation(format!("C13:panic:{}", drive::panic_site(&p)), format!("jet::{name} with {what} panicked: {p}"), replay("reject", "panic", &t)),
            }
        }
        if i % 97 == 0 || rep.no_sample_yet() {
            rep.sample(3, || json!({"part": "a", "jet": name, "program": text}));
        }
    });
    // (b) closed-form meaning on the complete product of boundary sets
    par_for(&modelled, rep, 1, |i, name| {
        rep.state();
        let (ptys, ret) = jets::signature(name).unwrap();
        let free: Vec<(String, Ty)> = ptys.iter().enumerate().map(|(k, t)| (format!("x{k}"), t.clone())).collect();
        let term = jet(name, free.iter().map(|(n, _)| var(n)).collect());
        let pinned = match pin_build(&term, &ret, &free, &[], &[false]) {
            Ok(p) => p,
            Err((text, o)) => {
                rep.violation("C13:jet-not-callable", format!("jet::{name} program not compiled: {o:?}"), json!({"kind": "compile", "program": text, "expect": "accept", "observed": "reject"}));
                return;
            }
        };
        // argument alphabets: all 2^16 pairs for 8-bit binary jets in thorough; otherwise boundary products
        let total_bits: u32 = ptys.iter().map(|t| gen::count_vals(t)).fold(0u32, |a, c| a.saturating_add(if c == u128::MAX { 1000 } else { 128 - c.leading_zeros() }));
        let budget: usize = if quick { 512 } else if total_bits <= 18 { 1 << 17 } else { 4096 };
        let (lists, _) = value_lists(&free, budget);
        let sizes: Vec<usize> = lists.iter().map(|l| l.len()).collect();
        let mut n = 0u64;
        product(&sizes, |idx| {
            let vals: Vec<Val> = idx.iter().enumerate().map(|(k, &j)| lists[k][j].clone()).collect();
            rep.transition(1);
            let distinct = (0..vals.len()).all(|a| (0..a).all(|b| vals[a] != vals[b]));
            if distinct && vals.len() >= 2 {
                rep.nontrivial(1);
            }
            let tag = format!("jet {name}({})", vals.iter().zip(&ptys).map(|(v, t)| render_expr(&val_expr(v, t))).collect::<Vec<_>>().join(", "));
            drive::DUMMY.with(|env| pin_run(rep, "C13", &tag, &pinned, &vals, env, n < 2));
            n += 1;
        });
        if i % 61 == 0 || rep.no_sample_yet() {
            rep.sample(6, || json!({"part": "b", "jet": name, "argument_tuples": n, "program": pinned.text}));
        }
    });
    // (c) arguments that are variables, one of them re-bound between its first binding and the call: the jet must
    // receive the value of the most recent binding, in the written position (every position of every modelled jet
    // of arity >= 2)
    let multi: Vec<(String, usize)> = modelled
        .iter()
        .filter_map(|n| jets::signature(n).map(|(p, _)| (n.clone(), p.len())))
        .filter(|(_, a)| *a >= 2)
        .flat_map(|(n, a)| (0..a).map(move |k| (n.clone(), k)))
        .collect();
    rep.set("rebound_argument_programs", json!(multi.len()));
    par_for(&multi, rep, 4, |i, (name, k)| {
        rep.state();
        let (ptys, ret) = jets::signature(name).unwrap();
        let mut free: Vec<(String, Ty)> = ptys.iter().enumerate().map(|(j, t)| (format!("x{j}"), t.clone())).collect();
        free.push(("y".to_string(), ptys[*k].clone()));
        let call = jet(name, (0..ptys.len()).map(|j| var(&format!("x{j}"))).collect());
        let term = Expr::Block(vec![let_(Pat::Id(format!("x{k}")), ptys[*k].clone(), var("y"))], Some(Box::new(call)));
        let pinned = match pin_build(&term, &ret, &free, &[], &[false]) {
            Ok(p) => p,
            Err((text, o)) => {
                rep.violation("C13:jet-not-callable", format!("jet::{name} with re-bound argument {k} not compiled: {o:?}"), json!({"kind": "compile", "program": text, "expect": "accept", "observed": "reject"}));
                return;
            }
        };
        let (lists, _) = value_lists(&free, if quick { 16 } else { 256 });
        let sizes: Vec<usize> = lists.iter().map(|l| l.len()).collect();
        let mut n = 0u64;
        product(&sizes, |idx| {
            let vals: Vec<Val> = idx.iter().enumerate().map(|(j, &m)| lists[j][m].clone()).collect();
            rep.transition(1);
            if vals[*k] != vals[ptys.len()] {
                rep.nontrivial(1);
            }
            let tag = format!("jet {name} with argument {k} re-bound ({})", vals.iter().zip(free.iter()).map(|(v, (_, t))| render_expr(&val_expr(v, t))).collect::<Vec<_>>().join(", "));
            drive::DUMMY.with(|env| pin_run(rep, "C13", &tag, &pinned, &vals, env, false));
            n += 1;
        });
        if i % 211 == 0 {
            rep.sample(8, || json!({"part": "c", "jet": name, "rebound_argument": k, "argument_tuples": n, "program": pinned.text}));
        }
    });
    rep.finish(
        "states = jets (a: signature, b: closed-form model); transitions = call variants + argument tuples; non-trivial = argument tuples whose operands are pairwise different (a swapped operand order would show)",
        &["operand grouping follows the frozen snapshot data/jet_sigs.txt of the pinned release's table (not an independent oracle)", "operand order, result shape and value functions (R5) are written from the Simplicity jet semantics; the C jets of simplicity-lang are trusted", "jets without a closed form (hashes, EC, transaction introspection) are only checked for callability"],
        true,
    )
}
