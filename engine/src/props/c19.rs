//! C19 — same source, same bytes: in-process, across processes with chosen hash seeds, via simc.

use crate::drive;
use crate::gen;
use crate::props::c01;
use crate::report::Report;
use crate::tokens;
use serde_json::json;
use std::collections::{BTreeMap, BTreeSet, HashMap};
use std::process::Command;

fn target_dir() -> String {
    std::env::var("VERIF_TARGET").unwrap_or_else(|_| "/verif/target".to_string())
}
fn corpus_dir() -> String {
    format!("{}/c19-corpus", target_dir())
}
fn simc() -> String {
    format!("{}/repo/release/simc", target_dir())
}
fn shim() -> String {
    format!("{}/getrandom_shim.so", target_dir())
}

fn hex(b: &[u8]) -> String {
    b.iter().map(|x| format!("{x:02x}")).collect()
}

fn base64(b: &[u8]) -> String {
    const T: &[u8; 64] = b"ABCDEFGHIJKLMNOPQRSTUVWXYZabcdefghijklmnopqrstuvwxyz0123456789+/";
    let mut s = String::new();
    for c in b.chunks(3) {
        let n = (c[0] as u32) << 16 | (*c.get(1).unwrap_or(&0) as u32) << 8 | *c.get(2).unwrap_or(&0) as u32;
        s.push(T[(n >> 18) as usize & 63] as char);
        s.push(T[(n >> 12) as usize & 63] as char);
        s.push(if c.len() > 1 { T[(n >> 6) as usize & 63] as char } else { '=' });
        s.push(if c.len() > 2 { T[n as usize & 63] as char } else { '=' });
    }
    s
}

/// One compilation, as a comparable line: "ok <hex of commit encoding> <cmr>" or "err".
fn compile_line(text: &str, debug: bool) -> String {
    match drive::guard(|| simfony::CompiledProgram::new(text, simfony::Arguments::default(), debug).map(|c| (c.commit().encode_to_vec(), c.commit().cmr()))) {
        Ok(Ok((bytes, cmr))) => format!("ok {} {}", hex(&bytes), cmr),
        Ok(Err(_)) => "err".into(),
        Err(p) => format!("panic {}", drive::panic_site(&p)),
    }
}

fn corpus(quick: bool) -> Vec<(String, String)> {
    let mut out: Vec<(String, String)> = tokens::examples().into_iter().map(|(n, t)| (format!("ex-{n}"), t)).collect();
    let fams = c01::families(true);
    let (jobs, fns, _, _) = c01::enumerate(&fams[..1], None);
    let n = if quick { 120 } else { 400 };
    let stride = (jobs.len() / n).max(1);
    for (i, job) in jobs.iter().enumerate().step_by(stride).take(n) {
        let fam = &fams[job.fam].1;
        let free = gen::free_typed(&job.expr, &fam.universe);
        let extra = gen::fns_for(&job.expr, &fns[job.fam]);
        out.push((format!("fam-{i:05}.simf"), gen::wrap_term(&job.expr, &job.ty, &free, &extra).render()));
    }
    for (n, p) in crate::families::static_family() {
        out.push((format!("static-{n}.simf"), p.render()));
    }
    // look-alike neighbours: programs that reuse a name (alias, function, witness, variable) or a whole text shape with
    // another meaning, adjacent in compilation order, in both orders -- anything a process remembers from one
    // compilation shows in the next one when compared with a fresh process (simc)
    let twins: [(&str, &str); 6] = [
        ("type Word = u32;\nfn main() {\n    let x: Word = 70000;\n    assert!(jet::eq_32(x, 70000));\n}\n", "type Word = u16;\nfn main() {\n    let x: Word = 7;\n    assert!(jet::eq_16(x, 7));\n}\n"),
        ("type Amount = u64;\nfn main() {\n    let p: (Amount, Amount) = (1, 2);\n    let (a, b): (Amount, Amount) = p;\n    assert!(jet::eq_64(a, 1));\n}\n", "type Amount = u32;\nfn main() {\n    let p: (Amount, Amount) = (1, 2);\n    let (a, b): (Amount, Amount) = p;\n    assert!(jet::eq_32(a, 1));\n}\n"),
        ("fn f(a: u8) -> u8 {\n    a\n}\nfn main() {\n    assert!(jet::eq_8(f(1), 1));\n}\n", "fn f(a: u16) -> u16 {\n    jet::max_16(a, 5)\n}\nfn main() {\n    assert!(jet::eq_16(f(1), 5));\n}\n"),
        ("fn main() {\n    let x: u8 = 1;\n    assert!(jet::eq_8(x, 1));\n}\n", "fn main() {\n    let x: u8 = 2;\n    assert!(jet::eq_8(x, 2));\n}\n"),
        ("fn main() {\n    let w: u8 = witness::A;\n    assert!(jet::eq_8(w, w));\n}\n", "fn main() {\n    let w: u16 = witness::A;\n    assert!(jet::eq_16(w, w));\n}\n"),
        ("type T = Option<u8>;\nfn g(x: T) -> bool {\n    is_none::<u8>(x)\n}\nfn main() {\n    assert!(g(None));\n}\n", "type T = Either<u8, u16>;\nfn g(x: T) -> bool {\n    match x {\n        Left(l: u8) => true,\n        Right(r: u16) => false,\n    }\n}\nfn main() {\n    assert!(g(Left(1)));\n}\n"),
    ];
    for (i, (a, b)) in twins.iter().enumerate() {
        out.push((format!("twin-{i:02}-0a.simf"), a.to_string()));
        out.push((format!("twin-{i:02}-0b.simf"), b.to_string()));
        out.push((format!("twin-{i:02}-1a.simf"), b.to_string()));
        out.push((format!("twin-{i:02}-1b.simf"), a.to_string()));
    }
    // rejected texts
    let bad = [
        "", "fn main() {", "fn main() { let x: u8 = 256; }", "fn main() { let x: u8 = y; }", "fn f() {}", "fn main() { assert!(1); }", "type A = B; fn main() {}", "fn main() { jet::verify(true); }", "fn main() -> u8 { 1 }",
        "fn main(a: u8) {}", "fn main() {} fn main() {}", "fn main() { let (a, a): (u8, u8) = (1, 2); }", "fn main() { let x: u8 = witness::A; let y: u8 = witness::A; }", "fn f() -> u8 { witness::A } fn main() {}", "fn main() { let x: List<u8, 3> = list![]; }",
        "fn main() { let x: u16 = <u8>::into(1); }", "fn main() { let x: u8 = unwrap(1); }", "fn main() {\r\n let x: bool = 2;\r\n}", "é", "fn main() { let x: [u8; 2] = [1]; }",
    ];
    for (i, b) in bad.iter().enumerate() {
        out.push((format!("bad-{i:02}.simf"), b.to_string()));
    }
    out
}

/// probe: iteration order of a std HashMap over four names (measures hash-seed diversity)
fn probe_order() -> String {
    let mut m = HashMap::new();
    for n in ["alpha", "beta", "gamma", "delta"] {
        m.insert(n, ());
    }
    m.keys().copied().collect::<Vec<_>>().join(",")
}

/// worker process: compile every corpus file with both flags; print one line per (file, flag)
pub fn worker(_args: &[String]) -> i32 {
    println!("PROBE {}", probe_order());
    let mut files: Vec<_> = match std::fs::read_dir(corpus_dir()) {
        Ok(rd) => rd.filter_map(|e| e.ok()).map(|e| e.path()).collect(),
        Err(_) => return 2,
    };
    files.sort();
    for f in files {
        let Ok(text) = std::fs::read_to_string(&f) else { continue };
        for debug in [false, true] {
            println!("{} {} {}", f.file_name().unwrap().to_string_lossy(), debug, compile_line(&text, debug));
        }
    }
    0
}

pub fn run(rep: &Report) -> i32 {
    let quick = rep.is_quick();
    let seeds: u64 = if quick { 8 } else { 64 };
    let corpus = corpus(quick);
    let _ = std::fs::remove_dir_all(corpus_dir());
    if std::fs::create_dir_all(corpus_dir()).is_err() {
        rep.machinery("cannot create the corpus directory");
        return rep.finish("", &[], false);
    }
    for (n, t) in &corpus {
        if std::fs::write(format!("{}/{n}", corpus_dir()), t).is_err() {
            rep.machinery("cannot write a corpus file");
        }
    }
    if !std::path::Path::new(&simc()).exists() || !std::path::Path::new(&shim()).exists() {
        rep.machinery(format!("{} or {} missing", simc(), shim()) + &format!(": run ./setup.sh (or ./check C19 ..., which builds them)"));
        return rep.finish("", &[], false);
    }
    rep.set("bounds", json!({"corpus": corpus.len(), "hash_seeds": seeds, "in_process": "3 compilations x 4 threads per (program, flag)", "simc_runs": "every corpus file x {plain, --debug} x 2 seeds"}));
    // reference lines
    let mut reference: BTreeMap<(String, bool), String> = BTreeMap::new();
    for (n, t) in &corpus {
        for debug in [false, true] {
            reference.insert((n.clone(), debug), compile_line(t, debug));
            rep.state();
        }
    }
    // (1) in-process repetition on several threads
    std::thread::scope(|s| {
        for _ in 0..4 {
            s.spawn(|| {
                for (n, t) in &corpus {
                    for debug in [false, true] {
                        for _ in 0..3 {
                            rep.transition(1);
                            rep.eval(1);
                            rep.trace(1);
                            let l = compile_line(t, debug);
                            if l != reference[&(n.clone(), debug)] {
                                rep.violation("C19:in-process-nondeterminism", format!("{n} (debug={debug}): two compilations in one process give different bytes / results"), json!({"kind": "determinism", "program": t, "debug": debug, "where": "in-process"}));
                            }
                        }
                    }
                }
            });
        }
    });
    // (1b) other API calls in between: state carried from one call to the next (caches, process-global settings)
    // must not change what a later compilation of the same source returns
    {
        use simfony::parse::ParseFromStr;
        let ops: Vec<(&str, Box<dyn Fn()>)> = vec![
            ("ResolvedType::parse_from_str", Box::new(|| {
                let _ = simfony::ResolvedType::parse_from_str("(u32, Either<u8, bool>)");
                let _ = simfony::ResolvedType::parse_from_str("List<[u8; 3], 8");
            })),
            ("Value::parse_from_str", Box::new(|| {
                let ty = simfony::ResolvedType::parse_from_str("(u8, Either<u8, [u8; 2]>)").unwrap();
                let _ = simfony::Value::parse_from_str("(1, Right(0x0102))", &ty).map(|v| v.to_string());
                let _ = simfony::Value::parse_from_str("(1, 2, 3)", &ty).map_err(|e| e.to_string());
            })),
            ("WitnessValues / Arguments::parse_from_str", Box::new(|| {
                let _ = simfony::WitnessValues::parse_from_str("mod witness { const A: u8 = 5; const B: (u16, bool) = (7, true); }").map(|w| w.to_string());
                let _ = simfony::Arguments::parse_from_str("mod param { const K: u256 = 1; } mod witness {}").map(|w| w.to_string());
            })),
            ("serde_json", Box::new(|| {
                let _ = serde_json::from_str::<simfony::WitnessValues>("{\"A\": {\"value\": \"Left(1)\", \"type\": \"Either<u8, u16>\"}}").map(|w| serde_json::to_string(&w));
                let _ = serde_json::from_str::<simfony::Arguments>("{\"A\": {\"value\": \"oops\", \"type\": \"u8\"}}").map_err(|e| e.to_string());
            })),
            ("rejected compilation (error rendering)", Box::new(|| {
                let _ = simfony::TemplateProgram::new("fn main() {\r\n    let x: u8 = /* é */ 256;\r\n}");
                let _ = simfony::TemplateProgram::new("fn main() { let x: u8 = ");
            })),
            ("satisfy / satisfy_with_env / encode", Box::new(|| {
                if let Ok(c) = simfony::CompiledProgram::new("fn main() { let a: u8 = witness::A; assert!(jet::eq_8(a, 3)); }", simfony::Arguments::default(), true) {
                    let w = drive::witness_map(&[("A".to_string(), crate::lang::Val::u(8, 3), crate::lang::Ty::U(8))]);
                    let _ = c.satisfy(w.shallow_clone()).map(|s| s.redeem().encode_to_vec());
                    let _ = c.satisfy_with_env(w, Some(&drive::dummy_env())).map(|s| s.redeem().encode_to_vec());
                    let _ = c.debug_symbols();
                }
            })),
        ];
        for (label, op) in &ops {
            if drive::guard(|| op()).is_err() {
                rep.class("intermediate-call-panicked(C06's subject)");
            }
            for (n, t) in &corpus {
                if !(n.starts_with("ex-") || n.starts_with("static-") || n.starts_with("bad-")) {
                    continue;
                }
                for debug in [false, true] {
                    rep.transition(1);
                    rep.eval(1);
                    rep.trace(1);
                    let l = compile_line(t, debug);
                    if l != reference[&(n.clone(), debug)] {
                        rep.class("DIFFERS-AFTER-OTHER-CALLS");
                        rep.violation(
                            "C19:in-process-nondeterminism-after-other-calls",
                            format!("{n} (debug={debug}): after calling {label} in the same process, compiling the same source gives a different result ({} instead of {})", l.chars().take(30).collect::<String>(), reference[&(n.clone(), debug)].chars().take(30).collect::<String>()),
                            json!({"kind": "determinism", "program": t, "debug": debug, "where": "in-process after other API calls", "after": label}),
                        );
                    } else {
                        rep.class("equal-after-other-calls");
                    }
                }
            }
        }
    }
    // (1c) one template object instantiated with argument maps A, B, A again, and a clone of it with B: "same source,
    // same arguments" must give the bytes of a template without history, whatever was instantiated before
    {
        let mut templates: Vec<(String, String)> = crate::families::static_family().into_iter().filter(|(n, _)| n.starts_with("P1") || n.starts_with("P4")).map(|(n, p)| (n, p.render())).collect();
        templates.push(("inline-param-in-fn-and-main".into(), "fn limit() -> u32 {\n    param::LIMIT\n}\nfn main() {\n    let w: u32 = witness::W;\n    assert!(jet::lt_32(w, limit()));\n    assert!(jet::le_32(w, param::LIMIT));\n    let p: (u8, bool) = param::PAIR;\n}\n".into()));
        let line = |t: &simfony::TemplateProgram, args: &[(String, crate::lang::Val, crate::lang::Ty)], debug: bool| -> String {
            match drive::guard(|| t.instantiate(drive::argument_map(args), debug).map(|c| (c.commit().encode_to_vec(), c.commit().cmr()))) {
                Ok(Ok((bytes, cmr))) => format!("ok {} {}", hex(&bytes), cmr),
                Ok(Err(e)) => format!("err {}", drive::first_line(&e)),
                Err(p) => format!("panic {}", drive::panic_site(&p)),
            }
        };
        for (name, text) in &templates {
            let Ok(Ok(t)) = drive::guard(|| simfony::TemplateProgram::new(text.as_str())) else {
                rep.machinery(format!("C19 template {name} does not compile"));
                continue;
            };
            let params: Vec<(String, crate::lang::Ty)> = t.parameters().iter().map(|(n, ty)| (n.as_inner().to_string(), drive::from_sim_ty(ty))).collect();
            let pick = |k: usize| -> Vec<(String, crate::lang::Val, crate::lang::Ty)> { params.iter().map(|(n, ty)| { let vs = crate::gen::vals(ty, 4); (n.clone(), vs[k % vs.len()].clone(), ty.clone()) }).collect() };
            let (a, b) = (pick(1), pick(2));
            for debug in [false, true] {
                rep.state();
                let fresh = |args: &[(String, crate::lang::Val, crate::lang::Ty)]| line(&simfony::TemplateProgram::new(text.as_str()).expect("compiled above"), args, debug);
                let (fa, fb) = (fresh(&a), fresh(&b));
                let clone = t.clone();
                let steps = [("A", line(&t, &a, debug), &fa), ("B after A", line(&t, &b, debug), &fb), ("A after A, B", line(&t, &a, debug), &fa), ("B on a clone taken before", line(&clone, &b, debug), &fb), ("A on a clone taken after", line(&t.clone(), &a, debug), &fa)];
                for (what, got, want) in steps {
                    rep.transition(1);
                    rep.eval(2);
                    rep.trace(1);
                    rep.nontrivial(1);
                    if got != **want {
                        rep.violation(
                            "C19:instantiate-depends-on-history",
                            format!("{name} (debug={debug}): instantiating with map {what} on a template that was instantiated before gives {}, a template without history gives {}", got.chars().take(40).collect::<String>(), want.chars().take(40).collect::<String>()),
                            json!({"kind": "determinism", "program": text, "debug": debug, "where": "one template object, several argument maps", "step": what}),
                        );
                    } else {
                        rep.class("instantiate-history-independent");
                    }
                }
            }
        }
    }
    // (2) separately started processes with chosen hash seeds
    let exe = std::env::current_exe().unwrap();
    let mut orders = BTreeSet::new();
    let results: Vec<(u64, Option<String>)> = {
        let seeds_v: Vec<u64> = (0..seeds).collect();
        let out = std::sync::Mutex::new(vec![]);
        crate::explore::par_for(&seeds_v, rep, 1, |_, &s| {
            let o = Command::new(&exe).arg("worker").arg("c19").env("LD_PRELOAD", shim()).env("VERIF_HASH_SEED", s.to_string()).output();
            out.lock().unwrap().push((s, o.ok().filter(|o| o.status.success()).map(|o| String::from_utf8_lossy(&o.stdout).to_string())));
        });
        out.into_inner().unwrap()
    };
    for (s, text) in &results {
        let Some(text) = text else {
            rep.machinery(format!("worker for hash seed {s} failed"));
            continue;
        };
        for l in text.lines() {
            if let Some(p) = l.strip_prefix("PROBE ") {
                orders.insert(p.to_string());
                continue;
            }
            let mut it = l.splitn(3, ' ');
            let (Some(n), Some(d), Some(rest)) = (it.next(), it.next(), it.next()) else { continue };
            let debug = d == "true";
            rep.transition(1);
            rep.eval(1);
            rep.trace(1);
            match reference.get(&(n.to_string(), debug)) {
                Some(r) if r == rest => rep.class("process-equal"),
                Some(_) => {
                    rep.class("PROCESS-DIFFERS");
                    let text = corpus.iter().find(|c| c.0 == n).map(|c| c.1.clone()).unwrap_or_default();
                    rep.violation("C19:cross-process-nondeterminism", format!("{n} (debug={debug}): a process started with hash seed {s} produces different bytes / result than this process"), json!({"kind": "determinism", "program": text, "debug": debug, "where": "process", "hash_seed": s}));
                }
                None => {}
            }
        }
    }
    rep.set("distinct_hashmap_orders_realised", json!({"of_24_possible": orders.len(), "orders": orders.iter().take(24).collect::<Vec<_>>()}));
    if orders.len() < 3 {
        rep.machinery(format!("hash-seed control ineffective: only {} distinct HashMap orders over {seeds} seeds", orders.len()));
    }
    // (3) simc
    let jobs: Vec<(usize, bool, u64)> = (0..corpus.len()).flat_map(|i| [(i, false, 1u64), (i, true, 1), (i, false, 5), (i, true, 5)]).collect();
    crate::explore::par_for(&jobs, rep, 8, |_, &(i, debug, seed)| {
        let (n, t) = &corpus[i];
        let mut c = Command::new(simc());
        c.arg(format!("{}/{n}", corpus_dir()));
        if debug {
            c.arg("--debug");
        }
        c.env("LD_PRELOAD", shim()).env("VERIF_HASH_SEED", seed.to_string());
        rep.transition(1);
        rep.eval(1);
        rep.trace(1);
        let Ok(o) = c.output() else {
            rep.machinery("cannot run simc");
            return;
        };
        let stdout = String::from_utf8_lossy(&o.stdout).to_string();
        let stderr = String::from_utf8_lossy(&o.stderr).to_string();
        let r = &reference[&(n.clone(), debug)];
        let replay = |what: &str| json!({"kind": "simc", "program": t, "debug": debug, "stdout": stdout, "stderr": stderr, "exit": o.status.code(), "library": r.chars().take(80).collect::<String>(), "what": what});
        if let Some(rest) = r.strip_prefix("ok ") {
            let hexenc = rest.split(' ').next().unwrap_or("");
            let bytes: Vec<u8> = (0..hexenc.len() / 2).map(|k| u8::from_str_radix(&hexenc[2 * k..2 * k + 2], 16).unwrap()).collect();
            let expect = format!("Program:\n{}\n", base64(&bytes));
            if o.status.code() != Some(0) || stdout != expect {
                rep.class("SIMC-DIFFERS");
                rep.violation("C19:simc-output-differs", format!("{n} (debug={debug}): simc exit {:?}, stdout differs from `Program:\\n<base64 of the library's commit encoding>\\n`", o.status.code()), replay("simc output differs from the library"));
            } else {
                rep.class("simc-equal");
                if n.starts_with("ex-") || n.starts_with("static-") {
                    rep.nontrivial(1);
                }
            }
        } else if r == "err" {
            if o.status.code() == Some(0) || stderr.trim().is_empty() {
                rep.class("SIMC-NO-ERROR");
                rep.violation("C19:simc-accepts-what-library-rejects", format!("{n} (debug={debug}): library returns Err, simc exit {:?} stderr {:?}", o.status.code(), stderr.chars().take(80).collect::<String>()), replay("simc should fail"));
            } else {
                rep.class("simc-error-equal");
            }
        }
    });
    rep.sample(3, || json!({"file": corpus[0].0, "reference": reference[&(corpus[0].0.clone(), false)].chars().take(120).collect::<String>()}));
    let _ = std::fs::remove_dir_all(corpus_dir());
    rep.finish(
        "state = (program, debug flag); transitions = compilations compared with the reference (in-process repeats, seeded processes, simc runs); non-trivial = shipped examples and static-family programs (several entries in the analysis maps) compared through simc",
        &["the hash-seed space (2^128) cannot be enumerated: exhaustive over the stated seed set, with the number of distinct HashMap iteration orders realised reported", "std's RandomState obtains its keys through getrandom(2), which the LD_PRELOAD shim answers from VERIF_HASH_SEED"],
        true,
    )
}
