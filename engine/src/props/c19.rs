pub fn worker(_args: &[String]) -> i32 { 2 }
