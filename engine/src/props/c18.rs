//! C18 — pruning for an environment never changes the verdict.  Differential oracle: pruned vs unpruned.

use crate::drive::{self, RunOutcome};
use crate::explore::{par_for, product};
use crate::gen;
use crate::lang::*;
use crate::props::c01;
use crate::props::common::*;
use crate::report::Report;
use serde_json::json;

const ENVS: [(u32, u32); 5] = [(0, 0xffff_ffff), (1000, 0xffff_fffe), (500_000_100, 0xffff_fffe), (0, 1000), (2000, 0x0040_0005)];

fn env_json(e: (u32, u32)) -> serde_json::Value {
    json!({"lock_time": e.0, "sequence": e.1})
}

/// One arm body of unit type. Returns (statements, witnesses declared inside: (name, type, a value that makes
/// the arm succeed under a permissive environment)).
fn arm(kind: &str, payload: &str, payload_ty: &Ty, tag: &str, h: &mut gen::Helpers) -> (Vec<Stmt>, Vec<(String, Ty, Val)>) {
    let w = |n: &str| format!("{n}{tag}");
    match kind {
        "eq-witness" => {
            // payload must equal an arm-local witness
            let n = w("A");
            (vec![Stmt::Expr(assert_(h.eq_call(payload_ty, var(payload), Expr::Witness(n.clone()))))], vec![(n, payload_ty.clone(), crate::refmodel::zero_val(payload_ty))])
        }
        "lock-height-witness" => {
            let n = w("H");
            (vec![Stmt::Expr(jet("check_lock_height", vec![Expr::Witness(n.clone())]))], vec![(n, Ty::U(32), Val::u(32, 900))])
        }
        "lock-height-const" => (vec![Stmt::Expr(jet("check_lock_height", vec![dec(1500)]))], vec![]),
        "lock-distance-const" => (vec![Stmt::Expr(jet("check_lock_distance", vec![dec(800)]))], vec![]),
        "lock-time-witness" => {
            let n = w("T");
            (vec![Stmt::Expr(jet("check_lock_time", vec![Expr::Witness(n.clone())]))], vec![(n, Ty::U(32), Val::u(32, 500_000_050))])
        }
        "panic" => (vec![Stmt::Expr(call(CallName::Panic, vec![]))], vec![]),
        "nothing" => (vec![], vec![]),
        "unused-witness" => {
            // an under-constrained witness inside the arm (D1 territory for the unpruned encoding)
            let n = w("U");
            (vec![let_(Pat::Ignore, Ty::U(16), Expr::Witness(n.clone()))], vec![(n, Ty::U(16), Val::u(16, 0x1234))])
        }
        "nested" => {
            let n = w("B");
            let (s1, mut ws) = arm("lock-height-const", payload, payload_ty, &format!("{tag}x"), h);
            let (s2, ws2) = arm("eq-witness", payload, payload_ty, &format!("{tag}y"), h);
            ws.extend(ws2);
            ws.push((n.clone(), Ty::Bool, Val::Bool(false)));
            (vec![Stmt::Expr(match_(Expr::Witness(n), (MPat::True, block(s1, None)), (MPat::False, block(s2, None))))], ws)
        }
        "nested-then-witness" | "witness-then-nested" => {
            // a witness read in the outer arm after (before) a complete inner match
            let (s1, mut ws) = arm("nested", payload, payload_ty, &format!("{tag}n"), h);
            let (s2, ws2) = arm("eq-witness", payload, payload_ty, &format!("{tag}z"), h);
            ws.extend(ws2);
            let stmts = if kind == "nested-then-witness" { s1.into_iter().chain(s2).collect() } else { s2.into_iter().chain(s1).collect() };
            (stmts, ws)
        }
        k if k.starts_with("array-") => {
            // an arm-local array witness of awkward length, destructured; first and last element checked
            // "array-<bits>-<len>"
            let mut it = k.split('-').skip(1);
            let bits: u16 = it.next().unwrap().parse().unwrap();
            let len: usize = it.next().unwrap().parse().unwrap();
            let n = w("Y");
            let ty = Ty::arr(Ty::U(bits), len);
            let names: Vec<String> = (0..len).map(|i| format!("e{tag}{i}")).collect();
            let val = Val::Array((0..len).map(|i| Val::u(bits, (i as u128 * 3 + 1) % 200)).collect());
            let stmts = vec![
                let_(Pat::Array(names.iter().map(|x| Pat::Id(x.clone())).collect()), ty.clone(), Expr::Witness(n.clone())),
                Stmt::Expr(assert_(jet(&format!("eq_{bits}"), vec![var(&names[0]), dec(1)]))),
                Stmt::Expr(assert_(jet(&format!("eq_{bits}"), vec![var(&names[len - 1]), dec(((len - 1) as u128 * 3 + 1) % 200)]))),
            ];
            (stmts, vec![(n, ty, val)])
        }
        "tuple-5" => {
            let n = w("Z");
            let ty = Ty::tup(vec![Ty::U(8), Ty::U(16), Ty::U(8), Ty::U(32), Ty::U(8)]);
            let val = Val::Tuple(vec![Val::u(8, 1), Val::u(16, 2), Val::u(8, 3), Val::u(32, 4), Val::u(8, 5)]);
            let names: Vec<String> = (0..5).map(|i| format!("t{tag}{i}")).collect();
            let stmts = vec![
                let_(Pat::Tuple(names.iter().map(|x| Pat::Id(x.clone())).collect()), ty.clone(), Expr::Witness(n.clone())),
                Stmt::Expr(assert_(jet("eq_8", vec![var(&names[0]), dec(1)]))),
                Stmt::Expr(assert_(jet("eq_8", vec![var(&names[4]), dec(5)]))),
            ];
            (stmts, vec![(n, ty, val)])
        }
        other => panic!("unknown arm kind {other}"),
    }
}

const ARM_KINDS: [&str; 16] = [
    "eq-witness", "lock-height-witness", "lock-height-const", "lock-distance-const", "lock-time-witness", "panic", "nothing", "unused-witness", "nested",
    "nested-then-witness", "witness-then-nested",
    // wide / awkwardly sized witnesses inside an arm: byte strings just above one and two 256-bit words, odd lengths
    "array-8-33", "array-8-65", "array-16-5", "array-8-48", "tuple-5",
];

struct Branchy {
    text: String,
    label: String,
    /// witnesses of the left arm / right arm with a default value
    left: Vec<(String, Ty, Val)>,
    right: Vec<(String, Ty, Val)>,
}

fn branchy(lk: &str, rk: &str) -> Branchy {
    let mut h = gen::Helpers::default();
    let (ls, lw) = arm(lk, "x", &Ty::U(8), "l", &mut h);
    let (rs, rw) = arm(rk, "y", &Ty::Bool, "r", &mut h);
    let m = match_(Expr::Witness("SEL".into()), (MPat::Left("x".into(), Ty::U(8)), block(ls, None)), (MPat::Right("y".into(), Ty::Bool), block(rs, None)));
    let mut items: Vec<Item> = h.fns.into_iter().map(Item::Fn).collect();
    items.push(Item::Fn(FnDef { name: "main".into(), params: vec![], ret: None, body: (vec![Stmt::Expr(m)], None) }));
    Branchy { text: Program { items }.render(), label: format!("left={lk} right={rk}"), left: lw, right: rw }
}

/// The differential check for one (program, witness map, environment).
#[allow(clippy::too_many_arguments)]
fn compare(rep: &Report, built: &drive::Built, text: &str, map: &[(String, Val, Ty)], e: (u32, u32), label: &str, anchored: bool) {
    compare_after(rep, built, text, map, e, label, anchored, &[])
}

/// `compare` on an instance that has already answered `satisfy_with_env` for the same map under `earlier` environments.
#[allow(clippy::too_many_arguments)]
fn compare_after(rep: &Report, built: &drive::Built, text: &str, map: &[(String, Val, Ty)], e: (u32, u32), label: &str, anchored: bool, earlier: &[(u32, u32)]) {
    let env = drive::env_with(e.0, e.1);
    rep.transition(1);
    rep.eval(2);
    rep.trace(1);
    // unpruned reference verdict: satisfy + execute the in-memory redeem program under env
    let unpruned_of = |c: &simfony::CompiledProgram| -> RunOutcome {
        match drive::guard(|| c.satisfy(drive::witness_map(map))) {
            Ok(Ok(s)) => drive::exec_node(s.redeem(), &env),
            Ok(Err(e)) => RunOutcome::SatisfyErr(e),
            Err(p) => RunOutcome::SatisfyPanic(p),
        }
    };
    // the reference verdict comes from an instance that has no history (a second instantiate of the template); the
    // unpruned satisfy() on the instance under test, which has seen other maps and environments, must agree with it
    let same_instance = unpruned_of(&built.compiled);
    let unpruned: RunOutcome = match &built.fresh {
        Some((args, debug)) => match drive::guard(|| built.template.instantiate(args.clone(), *debug)) {
            Ok(Ok(c)) => unpruned_of(&c),
            _ => same_instance.clone(),
        },
        None => same_instance.clone(),
    };
    if unpruned.class() != same_instance.class() {
        rep.violation(
            "C18:unpruned-verdict-depends-on-history",
            format!("{label}: satisfy() on an instance without history gives {unpruned:?} under env {e:?}, on the instance under test (after earlier satisfy_with_env calls) {same_instance:?}"),
            json!({"kind": "run", "program": text, "args": [], "witness": map_json(map), "debug": false, "env": env_json(e), "expect": unpruned.class(), "observed": same_instance.class()}),
        );
    }
    let pruned = drive::run_pruned(built, drive::witness_map(map), &env);
    // history independence: the first satisfy_with_env call on this instance is repeated after 5 and after 23 other
    // calls (other maps, other environments) and must give the same bytes
    {
        let n = built.pruned_calls.fetch_add(1, std::sync::atomic::Ordering::Relaxed);
        if n == 0 {
            let (o, fp) = drive::run_pruned_on_bytes(&built.compiled, built.cmr, drive::witness_map(map), &env);
            *built.first_pruned.lock().unwrap() = Some((drive::witness_map(map), e, o.class(), fp));
        } else if n == 5 || n == 23 {
            let first = built.first_pruned.lock().unwrap().clone();
            if let Some((w0, e0, class0, fp0)) = first {
                let env0 = drive::env_with(e0.0, e0.1);
                let (again, fp1) = drive::run_pruned_on_bytes(&built.compiled, built.cmr, w0, &env0);
                rep.eval(1);
                if again.class() != class0 || fp1 != fp0 {
                    rep.violation("C18:repeated-call-differs", format!("{label}: the first satisfy_with_env call on this instance gave {class0} / {fp0:016x}; repeated after {n} other calls (other maps and environments) it gives {} / {fp1:016x}", again.class()), json!({"kind": "run_pruned", "program": text, "args": [], "witness": map_json(map), "debug": false, "env": env_json(e), "expect": class0, "observed": again.class()}));
                }
            }
        }
    }
    rep.class(&format!("unpruned={} pruned={}", unpruned.class(), pruned.class()));
    let replay = |expect: &str, observed: &str| json!({"kind": "run_pruned", "program": text, "args": [], "witness": map_json(map), "debug": false, "env": env_json(e), "earlier_envs_on_this_instance": earlier.iter().map(|x| env_json(*x)).collect::<Vec<_>>(), "expect": expect, "observed": observed});
    let constrained = if anchored { "anchored" } else { "unanchored" };
    match (&unpruned, &pruned) {
        (RunOutcome::Success, RunOutcome::Success) => {}
        (RunOutcome::Failure(_), RunOutcome::SatisfyErr(_)) | (RunOutcome::SatisfyErr(_), RunOutcome::SatisfyErr(_)) => {}
        (u, RunOutcome::SatisfyErr(er)) if matches!(u, RunOutcome::Success) => {
            rep.violation(format!("C18:pruned-err-but-unpruned-succeeds:{constrained}"), format!("{label}: satisfy_with_env returns Err({}) although the unpruned program succeeds under env {e:?}", drive::first_line(er)), replay("success", "satisfy-err"));
        }
        (u, RunOutcome::Success) => {
            rep.violation(format!("C18:pruned-ok-but-unpruned-{}:{constrained}", u.class()), format!("{label}: satisfy_with_env returns a succeeding program although the unpruned program gives {u:?} under env {e:?}"), replay(u.class(), "success"));
        }
        (u, p) => {
            let site = match p {
                RunOutcome::ExecPanic(s) | RunOutcome::SatisfyPanic(s) => format!(":{}", drive::panic_site(s)),
                _ => String::new(),
            };
            rep.violation(format!("C18:pruned-{}:{constrained}{site}", p.class()), format!("{label}: unpruned {u:?}, satisfy_with_env(.., Some(env)) gives {p:?} under env {e:?}"), replay("success|satisfy-err", p.class()));
        }
    }
}

pub fn run(rep: &Report) -> i32 {
    let quick = rep.is_quick();
    rep.set("bounds", json!({"arm_kinds": ARM_KINDS, "environments(lock_time, sequence)": ENVS, "maps": ["all witnesses", "taken arm only", "other arm only", "none"], "family_programs": "C01 family A@1 with up to 4 witness assignments x 2 environments"}));
    // (A) branchy family
    let mut jobs: Vec<(usize, usize)> = vec![];
    for l in 0..ARM_KINDS.len() {
        for r in 0..ARM_KINDS.len() {
            jobs.push((l, r));
        }
    }
    par_for(&jobs, rep, 1, |i, &(l, r)| {
        let b = branchy(ARM_KINDS[l], ARM_KINDS[r]);
        rep.state();
        rep.eval(1);
        let built = match drive::build(&b.text, simfony::Arguments::default(), false) {
            Ok(x) => x,
            Err(o) => {
                rep.violation("C18:branchy-not-compiled", format!("{}: {o:?}", b.label), json!({"kind": "compile", "program": b.text, "expect": "accept", "observed": "reject"}));
                return;
            }
        };
        let anchored = ARM_KINDS[l] != "unused-witness" && ARM_KINDS[r] != "unused-witness";
        let sel_ty = Ty::either(Ty::U(8), Ty::Bool);
        let sels = [Val::Left(Box::new(Val::u(8, 0))), Val::Left(Box::new(Val::u(8, 7))), Val::Right(Box::new(Val::Bool(false))), Val::Right(Box::new(Val::Bool(true)))];
        for sel in &sels {
            let is_left = matches!(sel, Val::Left(_));
            let (taken, other) = if is_left { (&b.left, &b.right) } else { (&b.right, &b.left) };
            // per-witness value alphabets: default, and a second value that flips eq / height checks
            let variants = |ws: &Vec<(String, Ty, Val)>| -> Vec<Vec<(String, Val, Ty)>> {
                let lists: Vec<Vec<Val>> = ws
                    .iter()
                    .map(|(_, t, d)| {
                        let mut v = vec![d.clone()];
                        v.extend(other_vals(t, d, 1));
                        if *t == Ty::U(32) {
                            v.push(Val::u(32, 5000));
                        }
                        v
                    })
                    .collect();
                let mut out = vec![];
                let sizes: Vec<usize> = lists.iter().map(|l| l.len()).collect();
                product(&sizes, |ix| out.push(ws.iter().enumerate().map(|(k, (n, t, _))| (n.clone(), lists[k][ix[k]].clone(), t.clone())).collect()));
                out
            };
            let mut maps: Vec<Vec<(String, Val, Ty)>> = vec![];
            for tv in variants(taken) {
                // taken arm only
                let mut m = vec![("SEL".to_string(), sel.clone(), sel_ty.clone())];
                m.extend(tv.clone());
                maps.push(m.clone());
                // all witnesses
                if !other.is_empty() {
                    let mut m2 = m.clone();
                    m2.extend(other.iter().map(|(n, t, d)| (n.clone(), d.clone(), t.clone())));
                    maps.push(m2);
                }
            }
            // other arm only / none
            let mut m = vec![("SEL".to_string(), sel.clone(), sel_ty.clone())];
            m.extend(other.iter().map(|(n, t, d)| (n.clone(), d.clone(), t.clone())));
            maps.push(m);
            maps.push(vec![("SEL".to_string(), sel.clone(), sel_ty.clone())]);
            for m in &maps {
                for e in ENVS {
                    compare(rep, &built, &b.text, m, e, &b.label, anchored);
                }
            }
        }
        // pruning really removes something: compare encoded lengths on one succeeding case
        let m: Vec<(String, Val, Ty)> = std::iter::once(("SEL".to_string(), Val::Left(Box::new(Val::u(8, 0))), sel_ty.clone())).chain(b.left.iter().map(|(n, t, d)| (n.clone(), d.clone(), t.clone()))).collect();
        let env = drive::env_with(2000, 0x0040_0005);
        if let (Ok(Ok(u)), Ok(Ok(p))) = (drive::guard(|| built.compiled.satisfy(drive::witness_map(&m))), drive::guard(|| built.compiled.satisfy_with_env(drive::witness_map(&m), Some(&env)))) {
            if p.redeem().encode_to_vec().0.len() < u.redeem().encode_to_vec().0.len() {
                rep.nontrivial(1);
            }
        }
        if i % 23 == 4 || rep.no_sample_yet() {
            rep.sample(4, || json!({"label": b.label, "program": b.text}));
        }
    });
    // (A') witness-free programs: the verdict depends on the environment and on constants only
    {
        let bodies: Vec<(&str, Vec<Stmt>)> = vec![
            ("lock-height-const", vec![Stmt::Expr(jet("check_lock_height", vec![dec(1500)]))]),
            ("lock-height-999", vec![Stmt::Expr(jet("check_lock_height", vec![dec(999)]))]),
            ("lock-distance-const", vec![Stmt::Expr(jet("check_lock_distance", vec![dec(800)]))]),
            ("lock-time-const", vec![Stmt::Expr(jet("check_lock_time", vec![dec(500_000_050)]))]),
            ("assert-false", vec![Stmt::Expr(assert_(boolean(false)))]),
            ("assert-true", vec![Stmt::Expr(assert_(boolean(true)))]),
            ("panic", vec![Stmt::Expr(call(CallName::Panic, vec![]))]),
            ("nothing", vec![]),
            (
                "const-match-lock",
                vec![Stmt::Expr(match_(
                    jet("lt_8", vec![dec(1), dec(2)]),
                    (MPat::True, block(vec![Stmt::Expr(jet("check_lock_height", vec![dec(1500)]))], None)),
                    (MPat::False, block(vec![Stmt::Expr(call(CallName::Panic, vec![]))], None)),
                ))],
            ),
            ("unwrap-none", vec![let_(Pat::id("x"), Ty::U(8), call(CallName::Unwrap, vec![Expr::None]))]),
        ];
        for (label, stmts) in bodies {
            let text = Program { items: vec![Item::Fn(FnDef { name: "main".into(), params: vec![], ret: None, body: (stmts, None) })] }.render();
            rep.state();
            rep.eval(1);
            match drive::build(&text, simfony::Arguments::default(), false) {
                Ok(built) => {
                    for e in ENVS {
                        for extra in [false, true] {
                            let m: Vec<(String, Val, Ty)> = if extra { vec![("UNUSED".into(), Val::u(8, 1), Ty::U(8))] } else { vec![] };
                            compare(rep, &built, &text, &m, e, &format!("witness-free {label}"), true);
                        }
                    }
                }
                Err(o) => rep.violation("C18:branchy-not-compiled", format!("witness-free {label}: {o:?}"), json!({"kind": "compile", "program": text, "expect": "accept", "observed": "reject"})),
            }
        }
    }
    // (A'') control flow that depends on the environment: which arm runs (and so which witness is inspected and what
    // pruning removes) changes from one environment to the next on ONE compiled instance with ONE witness map; every
    // ordering of the environments is walked, and the unpruned satisfy() is interleaved
    {
        let conds: Vec<(&str, Expr)> = vec![
            ("lock-height<1500", jet("lt_32", vec![jet("tx_lock_height", vec![]), dec(1500)])),
            ("lock-time<500000050", jet("lt_32", vec![jet("tx_lock_time", vec![]), dec(500_000_050)])),
            ("lock-distance<6", jet("lt_16", vec![jet("tx_lock_distance", vec![]), dec(6)])),
            ("tx-is-final", jet("tx_is_final", vec![])),
        ];
        for (label, cond) in conds {
            let body = vec![Stmt::Expr(match_(
                cond,
                (MPat::True, block(vec![Stmt::Expr(assert_(jet("eq_8", vec![Expr::Witness("EARLY".into()), dec(1)])))], None)),
                (MPat::False, block(vec![Stmt::Expr(assert_(jet("eq_8", vec![Expr::Witness("LATE".into()), dec(2)])))], None)),
            ))];
            let text = Program { items: vec![Item::Fn(FnDef { name: "main".into(), params: vec![], ret: None, body: (body, None) })] }.render();
            rep.state();
            rep.eval(1);
            let maps: Vec<Vec<(String, Val, Ty)>> = vec![
                vec![("EARLY".into(), Val::u(8, 1), Ty::U(8)), ("LATE".into(), Val::u(8, 2), Ty::U(8))],
                vec![("EARLY".into(), Val::u(8, 1), Ty::U(8)), ("LATE".into(), Val::u(8, 3), Ty::U(8))],
                vec![("EARLY".into(), Val::u(8, 0), Ty::U(8)), ("LATE".into(), Val::u(8, 2), Ty::U(8))],
            ];
            // rotations and the reversal of the environment list: every environment follows every other one
            let mut orders: Vec<Vec<(u32, u32)>> = (0..ENVS.len()).map(|r| (0..ENVS.len()).map(|i| ENVS[(i + r) % ENVS.len()]).collect()).collect();
            orders.push(ENVS.iter().rev().cloned().collect());
            orders.push(vec![ENVS[1], ENVS[4], ENVS[1], ENVS[4], ENVS[2], ENVS[4]]);
            for (oi, order) in orders.iter().enumerate() {
                for m in &maps {
                    // a fresh instance per (order, map): the history is exactly this order
                    match drive::build(&text, simfony::Arguments::default(), false) {
                        Ok(built) => {
                            for (k, e) in order.iter().enumerate() {
                                compare_after(rep, &built, &text, m, *e, &format!("env-branch {label} order {oi} step {k}"), true, &order[..k]);
                                rep.nontrivial(1);
                            }
                        }
                        Err(o) => {
                            rep.violation("C18:branchy-not-compiled", format!("env-branch {label}: {o:?}"), json!({"kind": "compile", "program": text, "expect": "accept", "observed": "reject"}));
                            break;
                        }
                    }
                }
            }
        }
    }
    // (B) the anchored term family: pruned == unpruned on every explored assignment
    let fams = c01::families(true);
    let (jobs2, fns, transitions, _) = c01::enumerate(&fams[..1], None);
    rep.transition(transitions);
    let stride = if quick { 3 } else { 1 };
    let jobs2: Vec<&c01::Job> = jobs2.iter().step_by(stride).collect();
    par_for(&jobs2, rep, 16, |_, job| {
        let fam = &fams[job.fam].1;
        let free = gen::free_typed(&job.expr, &fam.universe);
        let extra = gen::fns_for(&job.expr, &fns[job.fam]);
        let text = gen::wrap_term(&job.expr, &job.ty, &free, &extra).render();
        rep.state();
        rep.eval(1);
        let Ok(built) = drive::build(&text, simfony::Arguments::default(), false) else {
            rep.class("family-member-not-compiled(skipped)");
            return;
        };
        let (lists, _) = value_lists(&free, 4);
        let sizes: Vec<usize> = lists.iter().map(|l| l.len()).collect();
        product(&sizes, |idx| {
            let mut w: Vec<(String, Val, Ty)> = free.iter().enumerate().map(|(k, (n, t))| (gen::wit_name_for(n), lists[k][idx[k]].clone(), t.clone())).collect();
            for ev in gen::vals(&job.ty, 2).into_iter().take(2) {
                w.push(("EXPECT".into(), ev, job.ty.clone()));
                for e in [ENVS[0], ENVS[1]] {
                    compare(rep, &built, &text, &w, e, "family", true);
                }
                w.pop();
            }
        });
    });
    rep.finish(
        "state = one program; transitions = (witness map, environment) pairs; non-trivial = programs for which pruning removed at least one node (shorter encoding than the unpruned program)",
        &["the unpruned reference verdict is obtained by executing satisfy()'s in-memory redeem program under the same environment", "simplicity-lang's prune / decoder / Bit Machine are trusted"],
        true,
    )
}
