//! C16 — printing a parsed program and re-parsing it changes nothing.  Intrinsic oracle.

use crate::drive;
use crate::explore::par_for;
use crate::gen;
use crate::lang::*;
use crate::mutate;
use crate::props::{c01, c04};
use crate::report::Report;
use crate::tokens;
use serde_json::json;
use simfony::parse::ParseFromStr;
use std::collections::HashSet;
use std::sync::Mutex;

/// Judge one text. Returns true when the text parsed (so the property's quantifier applied).
pub fn judge(rep: &Report, text: &str, origin: &str) -> bool {
    rep.eval(1);
    let replay = |what: &str, printed: &str| json!({"kind": "print_parse", "program": text, "printed": printed, "what": what, "origin": origin});
    let parsed = match drive::guard(|| simfony::parse::Program::parse_from_str(text)) {
        Ok(Ok(p)) => p,
        Ok(Err(_)) => {
            rep.class("does-not-parse(outside the quantifier)");
            return false;
        }
        Err(_) => {
            rep.class("parser-panicked(C06's subject)");
            return false;
        }
    };
    rep.trace(1);
    let printed = match drive::guard(|| parsed.to_string()) {
        Ok(s) => s,
        Err(p) => {
            rep.violation(format!("C16:print-panic:{}", drive::panic_site(&p)), format!("printing a parse tree panicked ({p}); origin {origin}"), replay("print panic", ""));
            return true;
        }
    };
    match drive::guard(|| simfony::parse::Program::parse_from_str(&printed)) {
        Ok(Ok(p2)) if p2 == parsed => rep.class("reparse-equal"),
        Ok(Ok(_)) => {
            rep.class("REPARSE-DIFFERENT-TREE");
            rep.violation("C16:reparse-different-tree", format!("printed program parses to a different tree; origin {origin}"), replay("different tree", &printed));
            return true;
        }
        Ok(Err(e)) => {
            rep.class("PRINTED-DOES-NOT-PARSE");
            rep.violation("C16:printed-text-does-not-parse", format!("printed program does not parse: {}; origin {origin}", c04::last_line(&e.to_string())), replay("printed text does not parse", &printed));
            return true;
        }
        Err(p) => {
            rep.violation(format!("C16:reparse-panic:{}", drive::panic_site(&p)), format!("re-parsing panicked ({p}); origin {origin}"), replay("reparse panic", &printed));
            return true;
        }
    }
    // acceptance and behaviour
    rep.eval(2);
    let a = drive::guard(|| simfony::TemplateProgram::new(text));
    let b = drive::guard(|| simfony::TemplateProgram::new(printed.as_str()));
    match (a, b) {
        (Ok(Ok(ta)), Ok(Ok(tb))) => {
            rep.class("both-accepted");
            // equivalent behaviour: equal CMR after instantiation with zero arguments
            let mut args = vec![];
            for (n, t) in ta.parameters().iter() {
                let ty = drive::from_sim_ty(t);
                args.push((n.as_inner().to_string(), crate::refmodel::zero_val(&ty), ty));
            }
            let ca = drive::guard(|| ta.instantiate(drive::argument_map(&args), false).map(|c| c.commit().cmr()));
            let cb = drive::guard(|| tb.instantiate(drive::argument_map(&args), false).map(|c| c.commit().cmr()));
            match (ca, cb) {
                (Ok(Ok(x)), Ok(Ok(y))) if x == y => rep.class("equal-cmr"),
                (Ok(Err(_)), Ok(Err(_))) => rep.class("both-fail-to-instantiate(C03's subject)"),
                (x, y) => {
                    rep.violation("C16:printed-program-differs", format!("original and printed program differ after compilation ({:?} vs {:?}); origin {origin}", x.map(|r| r.map(|c| c.to_string())), y.map(|r| r.map(|c| c.to_string()))), replay("different CMR", &printed));
                }
            }
        }
        (Ok(Err(_)), Ok(Err(_))) => rep.class("both-rejected"),
        (Ok(x), Ok(y)) => {
            rep.class("ACCEPTANCE-DIFFERS");
            rep.violation("C16:acceptance-differs", format!("original {} but printed text {}; origin {origin}", if x.is_ok() { "accepted" } else { "rejected" }, if y.is_ok() { "accepted" } else { "rejected" }), replay("acceptance differs", &printed));
        }
        _ => rep.class("front-end-panicked(C06's subject)"),
    }
    true
}

pub fn run(rep: &Report) -> i32 {
    let quick = rep.is_quick();
    let seen: Mutex<HashSet<u64>> = Mutex::new(HashSet::new());
    let fresh = |t: &str| seen.lock().unwrap().insert(crate::report::fxhash(t.as_bytes()));
    let fresh = &fresh;
    // (1) the term family in every layout and render option
    let fams = c01::families(quick);
    let (jobs, fns, transitions, _) = c01::enumerate(&fams[..if quick { 1 } else { 2 }], None);
    rep.transition(transitions);
    let opt_sets: Vec<RenderOpts> = vec![
        RenderOpts::default(),
        RenderOpts { trailing_commas: true, explicit_unit_ret: true, arms_as_blocks: true, paren_args: false },
        RenderOpts { trailing_commas: false, explicit_unit_ret: false, arms_as_blocks: false, paren_args: true },
    ];
    let stride = if quick { 4 } else { 1 };
    let fam_jobs: Vec<&c01::Job> = jobs.iter().step_by(stride).collect();
    rep.set("bounds", json!({"family_programs": fam_jobs.len(), "layouts": ALL_LAYOUTS.iter().map(|l| format!("{l:?}")).collect::<Vec<_>>(), "render_option_sets": opt_sets.len(), "token_mutants": "single edits of the kitchen-sink programs and the shipped examples that still parse", "near_misses": "all M_ast single edits of the C04 base programs"}));
    par_for(&fam_jobs, rep, 16, |i, job| {
        let fam = &fams[job.fam].1;
        let free = gen::free_typed(&job.expr, &fam.universe);
        let extra = gen::fns_for(&job.expr, &fns[job.fam]);
        let prog = gen::wrap_term(&job.expr, &job.ty, &free, &extra);
        for (oi, o) in opt_sets.iter().enumerate() {
            for (li, l) in ALL_LAYOUTS.iter().enumerate() {
                // every layout for a stride of programs, the first two layouts for all
                if li >= 2 && (i + oi) % 8 != 0 {
                    continue;
                }
                let text = prog.render_with(o.clone(), *l);
                if fresh(&text) {
                    rep.state();
                    rep.transition(1);
                    if judge(rep, &text, &format!("family layout={l:?} opts={oi}")) {
                        rep.nontrivial((li > 0 || oi > 0) as u64);
                    }
                }
            }
        }
    });
    // (2) near misses (they parse even when ill-typed)
    let bases = c04::base_programs(quick);
    par_for(&bases, rep, 1, |bi, (name, base)| {
        if quick && bi % 3 != 0 && bi >= 4 {
            return;
        }
        let ms = mutate::near_misses_for(name, base, rep.is_quick());
        rep.transition(ms.len() as u64);
        for (op, m) in ms {
            if rep.out_of_time() {
                break;
            }
            let text = m.render();
            if fresh(&text) {
                rep.state();
                if judge(rep, &text, &format!("{op} on {name}")) {
                    rep.nontrivial(1);
                }
            }
        }
    });
    // (3) examples and token mutants that still parse
    let mut seeds = tokens::kitchen_sink();
    let mut ex = tokens::examples();
    for (n, t) in &ex {
        if fresh(t) {
            rep.state();
            rep.transition(1);
            judge(rep, t, &format!("example {n}"));
        }
    }
    ex.sort_by_key(|e| e.1.len());
    seeds.extend(ex.into_iter().take(if quick { 2 } else { 24 }));
    let alpha = tokens::alphabet(quick, false);
    tokens::par_single_edits(rep, &seeds, &alpha, &|m, origin| {
        if tokens::bracket_depth(m) <= 12 && fresh(m) {
            rep.state();
            rep.transition(1);
            if judge(rep, m, origin) {
                rep.nontrivial(1);
            }
        }
    });
    rep.sample(2, || json!({"origin": "example", "text": tokens::examples().first().map(|e| e.1.chars().take(400).collect::<String>())}));
    rep.finish(
        "state = one source text (deduplicated); only texts that parse are judged; non-trivial = judged texts that are not the default rendering of a family member (other layouts, near misses, token mutants)",
        &["equality of parse trees is the library's own PartialEq on parse::Program", "behavioural equivalence: equal CMR after instantiation with all-zero arguments"],
        true,
    )
}
