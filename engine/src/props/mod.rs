pub mod c01;
pub mod c02;
pub mod c03;
pub mod c04;
pub mod c05;
pub mod c06;
pub mod c07;
pub mod c08;
pub mod c09;
pub mod c10;
pub mod c11;
pub mod c15;
pub mod c12;
pub mod c13;
pub mod c14;
pub mod c16;
pub mod c17;
pub mod c18;
pub mod c19;
pub mod c20;
pub mod common;

use crate::report::Report;

pub fn run(id: &str, tier: &str) -> i32 {
    let rep = Report::new(id, tier);
    match id {
        "C01" => c01::run(&rep),
        "C02" => c02::run(&rep),
        "C03" => c03::run(&rep),
        "C04" => c04::run(&rep),
        "C05" => c05::run(&rep),
        "C06" => c06::run(&rep),
        "C07" => c07::run(&rep),
        "C08" => c08::run(&rep),
        "C09" => c09::run(&rep),
        "C10" => c10::run(&rep),
        "C11" => c11::run(&rep),
        "C15" => c15::run(&rep),
        "C12" => c12::run(&rep),
        "C13" => c13::run(&rep),
        "C16" => c16::run(&rep),
        "C17" => c17::run(&rep),
        "C18" => c18::run(&rep),
        "C19" => c19::run(&rep),
        "C20" => c20::run(&rep),
        "C14" => c14::run(&rep),
        _ => {
            eprintln!("unknown property {id}");
            2
        }
    }
}

pub fn worker(args: &[String]) -> i32 {
    match args.first().map(|s| s.as_str()) {
        Some("c06") => c06::worker(args.get(1).map(|s| s.as_str()).unwrap_or("quick")),
        Some("c19") => c19::worker(&args[1..]),
        _ => 2,
    }
}
