//! C12 — template instantiation equals literal substitution.

use crate::drive::{self, RunOutcome};
use crate::explore::par_for;
use crate::gen;
use crate::lang::*;
use crate::mutate::walk_exprs_mut;
use crate::props::common::*;
use crate::refmodel::{self, cast_val, same_layout, val_expr, zero_val, Verdict};
use crate::report::Report;
use serde_json::json;
use std::collections::{BTreeMap, HashMap};

fn pool() -> Vec<Ty> {
    let u = Ty::U;
    vec![
        u(8), Ty::Bool, u(16), Ty::tup(vec![u(8), u(8)]), Ty::arr(u(8), 2), Ty::opt(u(8)), Ty::either(Ty::unit(), u(8)), Ty::list(u(8), 2), u(1), Ty::tup(vec![u(8)]),
        u(256), Ty::arr(u(8), 32), Ty::list(u(8), 4), Ty::unit(), u(4),
        // tuples of four and five components: the first arities at which a balanced product tree and a right-nested one differ
        Ty::tup(vec![u(8), u(8), u(8), u(8)]), Ty::tup(vec![Ty::Bool, u(8), u(8), u(32), u(16)]),
    ]
}

/// Wider shapes, used for the one-parameter programs only: every tuple arity up to 9, arrays of every length up to 9,
/// list bounds up to 16, and n-ary types nested in each other.
fn wide_pool() -> Vec<Ty> {
    let u = Ty::U;
    let mut v = vec![];
    for n in 3..=9usize {
        v.push(Ty::tup((0..n).map(|i| if i % 3 == 1 { u(16) } else { u(8) }).collect()));
        v.push(Ty::arr(u(8), n));
    }
    v.push(Ty::list(u(8), 8));
    v.push(Ty::list(u(16), 16));
    v.push(Ty::arr(Ty::tup(vec![u(1), u(1), u(1), u(1)]), 3));
    v.push(Ty::opt(Ty::tup(vec![u(8), Ty::Bool, u(8), Ty::Bool])));
    v.push(Ty::list(Ty::tup(vec![u(8), u(8), u(8), u(8), u(8)]), 4));
    v.push(Ty::either(Ty::tup(vec![u(8), u(8), u(8), u(8)]), Ty::arr(u(8), 5)));
    v.push(Ty::tup(vec![Ty::tup(vec![u(8), u(8), u(8), u(8)]), Ty::tup(vec![u(8), u(8), u(8), u(8), u(8)])]));
    v
}

#[derive(Clone, Debug)]
struct Slot {
    name: String,
    ty: Ty,
    /// 0 = in main, 1 = in a function main calls, 2 = in a function nobody calls
    pos: u8,
}

fn build_program(slots: &[Slot]) -> (Program, Vec<(String, Ty)>) {
    let mut h = gen::Helpers::default();
    let mut main_stmts = vec![];
    let mut witnesses = vec![];
    let mut fns = vec![];
    for (i, s) in slots.iter().enumerate() {
        let wname = format!("w{i}");
        match s.pos {
            0 | 1 => {
                main_stmts.extend(gen::anchored_witness(&mut h, &wname, &format!("W{i}"), &s.ty));
                witnesses.push((format!("W{i}"), s.ty.clone()));
                let source = if s.pos == 0 {
                    Expr::Param(s.name.clone())
                } else {
                    fns.push(FnDef { name: format!("get{i}"), params: vec![], ret: Some(s.ty.clone()), body: (vec![], Some(Box::new(Expr::Param(s.name.clone())))) });
                    fcall(&format!("get{i}"), vec![])
                };
                main_stmts.push(Stmt::Expr(assert_(h.eq_call(&s.ty, source, var(&wname)))));
            }
            _ => {
                fns.push(FnDef { name: format!("dead{i}"), params: vec![], ret: Some(s.ty.clone()), body: (vec![], Some(Box::new(Expr::Param(s.name.clone())))) });
            }
        }
    }
    let mut items: Vec<Item> = h.fns.into_iter().map(Item::Fn).collect();
    items.extend(fns.into_iter().map(Item::Fn));
    items.push(Item::Fn(FnDef { name: "main".into(), params: vec![], ret: None, body: (main_stmts, None) }));
    (Program { items }, witnesses)
}

fn slot_sets(quick: bool) -> Vec<Vec<Slot>> {
    let p = pool();
    let mut out: Vec<Vec<Slot>> = vec![vec![]];
    // k = 1: every type x every position
    for t in &p {
        for pos in 0..3u8 {
            out.push(vec![Slot { name: "P0".into(), ty: t.clone(), pos }]);
        }
    }
    for t in &wide_pool() {
        for pos in 0..2u8 {
            out.push(vec![Slot { name: "P0".into(), ty: t.clone(), pos }]);
        }
    }
    // k = 2: all ordered type pairs x positions (quick: a stride over pairs)
    let mut c = 0usize;
    for t0 in &p {
        for t1 in &p {
            for pos0 in 0..3u8 {
                for pos1 in 0..3u8 {
                    c += 1;
                    if quick && c % 5 != 0 {
                        continue;
                    }
                    out.push(vec![Slot { name: "P0".into(), ty: t0.clone(), pos: pos0 }, Slot { name: "P1".into(), ty: t1.clone(), pos: pos1 }]);
                    if t0 == t1 {
                        // the same parameter name used twice at the same type
                        out.push(vec![Slot { name: "P0".into(), ty: t0.clone(), pos: pos0 }, Slot { name: "P0".into(), ty: t1.clone(), pos: pos1 }]);
                    }
                }
            }
        }
    }
    // k = 3, 4 with cyclic type choice
    let n = p.len();
    for k in 3..=4usize {
        for o in 0..n {
            for stride in [1usize, 4] {
                for posmask in 0..(if quick { 3 } else { 9 }) {
                    let slots: Vec<Slot> = (0..k)
                        .map(|i| {
                            let reuse = i == k - 1 && posmask % 3 == 1;
                            Slot { name: if reuse { "P0".into() } else { format!("P{i}") }, ty: if reuse { p[o % n].clone() } else { p[(o + i * stride) % n].clone() }, pos: ((posmask + i) % 3) as u8 }
                        })
                        .collect();
                    out.push(slots);
                }
            }
        }
    }
    // the same sets with names of different lengths (byte order and length-first order disagree)
    const MIXED: [&str; 5] = ["B", "AB", "A", "PREIMAGE", "PK"];
    let renamed: Vec<Vec<Slot>> = out
        .iter()
        .enumerate()
        .filter(|(i, set)| set.iter().map(|s| &s.name).collect::<std::collections::BTreeSet<_>>().len() >= 2 && (!quick || i % 3 == 0))
        .map(|(_, set)| {
            set.iter()
                .map(|s| {
                    let k: usize = s.name[1..].parse().unwrap_or(0);
                    Slot { name: MIXED[k % MIXED.len()].to_string(), ty: s.ty.clone(), pos: s.pos }
                })
                .collect()
        })
        .collect();
    out.extend(renamed);
    out
}

fn same_layout_other_type(t: &Ty) -> Option<Ty> {
    let u = Ty::U;
    let cands = [
        Ty::tup(vec![u(8), u(8)]), u(16), Ty::arr(u(8), 2), Ty::either(Ty::unit(), u(8)), Ty::opt(u(8)), Ty::list(u(8), 2), u(1), Ty::Bool, u(8), Ty::tup(vec![u(8)]),
        Ty::tup(vec![u(128), u(128)]), u(256), Ty::arr(u(8), 32), Ty::arr(u(128), 2), Ty::tup(vec![Ty::opt(Ty::arr(u(8), 2)), Ty::list(u(8), 2)]), Ty::list(u(8), 4), Ty::arr(Ty::Bool, 0), Ty::unit(), Ty::tup(vec![u(2), u(2)]), u(4),
    ];
    cands.iter().find(|c| *c != t && same_layout(c, t)).cloned()
}

pub fn run(rep: &Report) -> i32 {
    let quick = rep.is_quick();
    let sets = slot_sets(quick);
    rep.set("bounds", json!({"programs": sets.len(), "parameters_per_program": "0..4", "positions": ["main", "called function", "uncalled function"], "argument_maps": ["exact", "each name missing", "extra name", "each name same-layout-other-type", "each name other-layout", "each name at a type differing only in a position its value does not inhabit"]}));
    par_for(&sets, rep, 8, |i, slots| {
        drive::DUMMY.with(|env| check_program(rep, slots, i, env));
    });
    // one name at two nominally different types of equal layout: no single argument type fits both occurrences, so the
    // template must be rejected (parameters() could not report the occurrences with their types)
    {
        let mut cases = vec![];
        for t in pool().iter().chain(wide_pool().iter()) {
            if let Some(o) = same_layout_other_type(t) {
                for (a, b) in [(0u8, 0u8), (0, 1), (1, 0), (1, 1), (2, 0)] {
                    cases.push(vec![Slot { name: "P0".into(), ty: t.clone(), pos: a }, Slot { name: "P0".into(), ty: o.clone(), pos: b }]);
                }
            }
        }
        rep.set("same_name_two_types_programs", json!(cases.len()));
        par_for(&cases, rep, 8, |_, slots| {
            let (prog, _) = build_program(slots);
            let text = prog.render();
            rep.state();
            rep.transition(1);
            rep.eval(1);
            rep.trace(1);
            rep.nontrivial(1);
            match drive::guard(|| simfony::TemplateProgram::new(text.as_str()).map(|_| ())) {
                Ok(Err(_)) => rep.class("two-types-rejected"),
                Ok(Ok(())) => rep.violation("C12:same-name-two-types-accepted", format!("param::P0 used at {} and at {} (equal layout, different types) is accepted", slots[0].ty.render(), slots[1].ty.render()), json!({"kind": "compile", "program": text, "expect": "reject", "observed": "accept"})),
                Err(p) => rep.violation(format!("C12:panic:{}", drive::panic_site(&p)), format!("template with one name at two types panicked: {p}"), json!({"kind": "compile", "program": text, "expect": "reject", "observed": "panic"})),
            }
        });
    }
    rep.finish(
        "state = (program, argument map); non-trivial = maps in which some argument is mistyped with a same-layout value or missing",
        &["literal substitution is done on the harness AST with the harness's own value writer", "equivalence: equal CMR, otherwise equal verdicts on the witness alphabet"],
        true,
    )
}

fn check_program(rep: &Report, slots: &[Slot], idx: usize, env: &drive::Env) {
    let (prog, witnesses) = build_program(slots);
    let text = prog.render();
    let (v, info) = refmodel::check_program(&prog);
    if v != Verdict::WellTyped {
        rep.machinery(format!("C12 family member not well-typed: {v:?}\n{text}"));
        return;
    }
    rep.state();
    rep.eval(1);
    let template = match drive::guard(|| simfony::TemplateProgram::new(text.as_str())) {
        Ok(Ok(t)) => t,
        other => {
            rep.violation("C12:template-rejected", format!("well-typed template rejected: {:?}", other.map(|r| r.map(|_| ()))), json!({"kind": "compile", "program": text, "expect": "accept", "observed": "reject"}));
            return;
        }
    };
    // (1) parameters() = R1's occurrence set
    let mut expect_params: BTreeMap<String, Ty> = BTreeMap::new();
    for (n, t) in &info.params {
        expect_params.insert(n.clone(), t.clone());
    }
    let got_params: BTreeMap<String, Ty> = template.parameters().iter().map(|(n, t)| (n.as_inner().to_string(), drive::from_sim_ty(t))).collect();
    rep.trace(1);
    if got_params != expect_params {
        rep.violation("C12:parameters-mismatch", format!("parameters() = {:?}, occurrences in the source = {:?}", got_params.iter().map(|(n, t)| format!("{n}: {}", t.render())).collect::<Vec<_>>(), expect_params.iter().map(|(n, t)| format!("{n}: {}", t.render())).collect::<Vec<_>>()), json!({"kind": "parameters", "program": text}));
        return;
    }
    let params: Vec<(String, Ty)> = expect_params.into_iter().collect();
    // argument maps
    let nvals = if rep.is_quick() { 2 } else { 4 };
    let value_choices: Vec<Vec<Val>> = params.iter().map(|(_, t)| gen::vals(t, nvals).into_iter().take(nvals).collect()).collect();
    let rounds = value_choices.iter().map(|v| v.len()).max().unwrap_or(1).max(1);
    for round in 0..rounds {
        let exact: Vec<(String, Val, Ty)> = params.iter().zip(&value_choices).map(|((n, t), vs)| (n.clone(), vs[round % vs.len()].clone(), t.clone())).collect();
        // every combination of per-name options {exact, missing, same-layout-other-type, other-layout} x 0..2 extra
        // names (round 0); later rounds vary the values of the exact map only
        let mut maps: Vec<(String, Vec<(String, Val, Ty)>, bool, bool)> = vec![];
        if round == 0 {
            let n = params.len();
            let sizes = vec![5usize; n];
            let mut combos: Vec<Vec<usize>> = vec![];
            crate::explore::product(&sizes, |ix| combos.push(ix.to_vec()));
            if n == 0 {
                combos = vec![vec![]];
            }
            for ix in combos {
                // with 3+ parameters keep combinations with at most two deviations
                if n >= 3 && ix.iter().filter(|&&o| o != 0).count() > 2 {
                    continue;
                }
                for extra in 0..3usize {
                    let mut m: Vec<(String, Val, Ty)> = vec![];
                    let mut ok = true;
                    let mut nontrivial = false;
                    let mut label = String::new();
                    for k in 0..n {
                        match ix[k] {
                            0 => m.push(exact[k].clone()),
                            1 => {
                                ok = false;
                                nontrivial = true;
                                label.push_str(&format!("missing-{} ", params[k].0));
                            }
                            2 => match same_layout_other_type(&params[k].1) {
                                Some(o) => {
                                    let v = cast_val(&exact[k].1, &params[k].1, &o).expect("castable");
                                    m.push((params[k].0.clone(), v, o));
                                    ok = false;
                                    nontrivial = true;
                                    label.push_str(&format!("same-layout-{} ", params[k].0));
                                }
                                None => m.push(exact[k].clone()),
                            },
                            4 => {
                                // a type that differs only where some value of the parameter type has nothing (None's
                                // payload, the other side of a Left / Right, the elements of an empty list)
                                let hidden = gen::vals(&params[k].1, 8).into_iter().find_map(|v| hidden_position_variant(&params[k].1, &v).map(|t| (v, t)));
                                match hidden {
                                    Some((v, t)) if t != params[k].1 => {
                                        m.push((params[k].0.clone(), v, t));
                                        ok = false;
                                        nontrivial = true;
                                        label.push_str(&format!("hidden-position-{} ", params[k].0));
                                    }
                                    _ => m.push(exact[k].clone()),
                                }
                            }
                            _ => {
                                let other = if same_layout(&params[k].1, &Ty::U(32)) { Ty::U(64) } else { Ty::U(32) };
                                m.push((params[k].0.clone(), zero_val(&other), other));
                                ok = false;
                                label.push_str(&format!("other-layout-{} ", params[k].0));
                            }
                        }
                    }
                    for e in 0..extra {
                        m.push((format!("UNUSED{e}"), Val::u(8, 9 + e as u128), Ty::U(8)));
                    }
                    if label.is_empty() {
                        label.push_str("exact ");
                    }
                    label.push_str(&format!("+{extra}extra"));
                    maps.push((label, m, ok, nontrivial));
                }
            }
        } else {
            maps.push(("exact".into(), exact.clone(), true, false));
        }
        for (label, m, should_ok, nontrivial) in maps {
            rep.state();
            rep.transition(1);
            if nontrivial {
                rep.nontrivial(1);
            }
            rep.eval(1);
            rep.trace(1);
            let replay = |expect: &str, observed: &str| json!({"kind": "instantiate", "program": text, "args": map_json(&m), "expect": expect, "observed": observed, "map": label});
            let r = drive::guard(|| template.instantiate(drive::argument_map(&m), false));
            let compiled = match (r, should_ok) {
                (Err(p), _) => {
                    rep.violation(format!("C12:panic:{}", drive::panic_site(&p)), format!("instantiate panicked with map {label}: {p}"), replay(if should_ok { "ok" } else { "err" }, "panic"));
                    continue;
                }
                (Ok(Ok(c)), true) => {
                    rep.class("instantiate-ok");
                    c
                }
                (Ok(Err(_)), false) => {
                    rep.class("instantiate-err");
                    continue;
                }
                (Ok(Ok(_)), false) => {
                    rep.class("INSTANTIATE-OK-BUT-INCONSISTENT");
                    rep.violation(format!("C12:accepted-inconsistent-arguments:{}", label.split('-').next().unwrap_or("")), format!("instantiate accepted the argument map `{label}`"), replay("err", "ok"));
                    continue;
                }
                (Ok(Err(e)), true) => {
                    rep.class("INSTANTIATE-ERR-BUT-CONSISTENT");
                    rep.violation(format!("C12:rejected-consistent-arguments:{label}"), format!("instantiate rejected the consistent argument map `{label}`: {}", drive::first_line(&e)), replay("ok", "err"));
                    continue;
                }
            };
            // (3) equivalence with the literal-substituted program
            let mut sub = prog.clone();
            let values: HashMap<String, (Val, Ty)> = m.iter().map(|(n, v, t)| (n.clone(), (v.clone(), t.clone()))).collect();
            walk_exprs_mut(&mut sub, &mut |e: &mut Expr| {
                if let Expr::Param(n) = e {
                    let (v, t) = &values[n.as_str()];
                    *e = val_expr(v, t);
                }
            });
            let sub_text = sub.render();
            rep.eval(1);
            let sub_built = match drive::build(&sub_text, simfony::Arguments::default(), false) {
                Ok(b) => b,
                Err(o) => {
                    rep.violation("C12:substituted-program-rejected", format!("literal-substituted program not compiled: {o:?}"), json!({"kind": "compile", "program": sub_text, "expect": "accept", "observed": "reject"}));
                    continue;
                }
            };
            let cmr = match drive::guard(|| compiled.commit().cmr()) {
                Ok(c) => c,
                Err(p) => {
                    rep.violation(format!("C12:panic:{}", drive::panic_site(&p)), format!("commit panicked: {p}"), replay("ok", "panic"));
                    continue;
                }
            };
            let inst_built = drive::Built { template: template.clone(), compiled, cmr, fresh: None, fresh_runs: Default::default(), fresh_pruned_runs: Default::default(), runs: Default::default(), first_run: Default::default(), pruned_calls: Default::default(), first_pruned: Default::default() };
            if inst_built.cmr == sub_built.cmr {
                rep.class("equal-cmr");
            } else {
                rep.class("different-cmr(slow path)");
            }
            // behaviour on witnesses: the exact argument values (must succeed) and a variation (must fail);
            // compare both programs on each
            let base_w: Vec<(String, Val, Ty)> = witnesses
                .iter()
                .enumerate()
                .map(|(wi, (wn, wt))| {
                    // witness i belongs to slot i (positions 0/1 only)
                    let slot_idx: usize = wn[1..].parse().unwrap();
                    let pname = &slots[slot_idx].name;
                    let _ = wi;
                    (wn.clone(), values[pname.as_str()].0.clone(), wt.clone())
                })
                .collect();
            let mut wcases: Vec<(Vec<(String, Val, Ty)>, bool)> = vec![(base_w.clone(), true)];
            for k in 0..base_w.len() {
                if let Some(o) = other_vals(&base_w[k].2, &base_w[k].1, 1).pop() {
                    let mut w = base_w.clone();
                    w[k].1 = o;
                    wcases.push((w, false));
                }
            }
            for (w, should_succeed) in wcases {
                rep.transition(1);
                rep.eval(2);
                rep.trace(1);
                let a = drive::run(&inst_built, drive::witness_map(&w), env);
                let b = drive::run(&sub_built, drive::witness_map(&w), env);
                let expect = if should_succeed { "success" } else { "failure" };
                if a.class() != b.class() {
                    rep.violation("C12:instantiated-differs-from-substituted", format!("map {label}: instantiated program gives {a:?}, literal-substituted program gives {b:?}"), json!({"kind": "run", "program": text, "args": map_json(&m), "witness": map_json(&w), "debug": false, "env": "dummy", "expect": b.class(), "observed": a.class()}));
                } else if !matches!((&a, should_succeed), (RunOutcome::Success, true) | (RunOutcome::Failure(_), false)) {
                    rep.violation(format!("C12:argument-value-not-delivered:{}", a.class()), format!("map {label}: program comparing each param with a witness: expected {expect}, got {a:?}"), json!({"kind": "run", "program": text, "args": map_json(&m), "witness": map_json(&w), "debug": false, "env": "dummy", "expect": expect, "observed": a.class()}));
                }
            }
        }
    }
    if idx % 401 == 7 || rep.no_sample_yet() {
        rep.sample(4, || json!({"slots": slots.iter().map(|s| format!("{}: {} @{}", s.name, s.ty.render(), s.pos)).collect::<Vec<_>>(), "program": text}));
    }
}
