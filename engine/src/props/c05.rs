//! C05 — satisfy type-checks witnesses and delivers each value to its name.

use crate::drive::{self, RunOutcome};
use crate::explore::{par_for, product};
use crate::gen;
use crate::lang::*;
use crate::props::common::*;
use crate::refmodel::{cast_val, same_layout, val_expr, zero_val};
use crate::report::Report;
use serde_json::json;

fn type_pool() -> Vec<Ty> {
    let u = Ty::U;
    vec![
        u(16), Ty::tup(vec![u(8), u(8)]), Ty::arr(u(8), 2), Ty::Bool, u(1), Ty::either(Ty::unit(), Ty::unit()), Ty::opt(u(8)), Ty::either(Ty::unit(), u(8)), Ty::list(u(8), 2), Ty::tup(vec![u(8)]), u(8),
        u(4), Ty::tup(vec![u(2), u(2)]), Ty::list(u(8), 4), Ty::tup(vec![Ty::opt(Ty::arr(u(8), 2)), Ty::list(u(8), 2)]), u(256), Ty::tup(vec![u(128), u(128)]), Ty::unit(), Ty::arr(u(8), 0), u(32),
        // values containing several different sum types (hidden sides of different widths)
        Ty::tup(vec![Ty::either(u(8), u(256)), Ty::either(u(8), u(8))]), Ty::either(Ty::either(u(8), u(16)), u(8)), Ty::tup(vec![Ty::opt(u(16)), Ty::either(Ty::Bool, u(64)), Ty::opt(u(1))]),
        // first arities at which balanced and right-nested product trees differ; an array of such tuples
        Ty::tup(vec![u(8), u(8), u(8), u(8)]), Ty::tup(vec![Ty::Bool, u(8), u(8), u(32), u(16)]), Ty::arr(Ty::tup(vec![u(1), u(1), u(1), u(1)]), 3), Ty::arr(u(8), 5), Ty::list(u(8), 8),
    ]
}

fn same_layout_partner(t: &Ty) -> Option<Ty> {
    type_pool().into_iter().find(|c| c != t && same_layout(c, t))
}

#[derive(Clone, Copy, Debug, PartialEq)]
enum Supply {
    Exact,
    Wrong,
    Absent,
    SameLayoutOtherType,
    OtherLayout,
    ValueOfNext,
    /// the expected value itself, at a type that differs only where that value has nothing (None's payload, the
    /// other side of a Left / Right, the elements of an empty list)
    HiddenPosition,
}
const SUPPLIES: [Supply; 7] = [Supply::Exact, Supply::Wrong, Supply::Absent, Supply::SameLayoutOtherType, Supply::OtherLayout, Supply::ValueOfNext, Supply::HiddenPosition];

pub fn run(rep: &Report) -> i32 {
    let quick = rep.is_quick();
    let pool = type_pool();
    // type tuples: every type alone, every adjacent pair (which includes the same-layout pairs), cyclic triples / quads
    let mut tuples: Vec<Vec<Ty>> = vec![vec![]];
    for t in &pool {
        tuples.push(vec![t.clone()]);
    }
    for i in 0..pool.len() {
        for d in [1usize, 2, 5] {
            tuples.push(vec![pool[i].clone(), pool[(i + d) % pool.len()].clone()]);
        }
        tuples.push(vec![pool[i].clone(), pool[i].clone()]);
        tuples.push(vec![pool[i].clone(), pool[(i + 1) % pool.len()].clone(), pool[(i + 3) % pool.len()].clone()]);
        if !quick {
            tuples.push(vec![pool[i].clone(), pool[(i + 1) % pool.len()].clone(), pool[(i + 2) % pool.len()].clone(), pool[i].clone()]);
        }
    }
    if !quick {
        // n = 8 with three options per name
        for o in 0..4 {
            tuples.push((0..8).map(|i| pool[(o * 3 + i * 2) % pool.len()].clone()).collect());
        }
    }
    rep.set("bounds", json!({"type_tuples": tuples.len(), "witnesses_per_program": if quick {"0..3"} else {"0..4 (all 6^n maps), 8 (3 options per name)"}, "options_per_name": SUPPLIES.iter().map(|s| format!("{s:?}")).collect::<Vec<_>>(), "literal_choices": ["non-zero", "zero"], "extra_names": "0..2", "name_schemes": ["N0, N1, ...", "B, AB, A, PREIMAGE, PK, SIG, Z9, A_LONG_WITNESS_NAME"]}));
    par_for(&tuples, rep, 1, |i, tys| {
        drive::DUMMY.with(|env| check_tuple(rep, tys, i, env));
    });
    // delivery next to a witness the program never inspects: `ign(witness::N0)` beside an inspected `witness::N1`
    {
        let mut jobs: Vec<(Ty, Ty, bool)> = vec![];
        let inspected = [Ty::U(8), Ty::opt(Ty::U(1)), Ty::Bool, Ty::tup(vec![Ty::U(8), Ty::U(8)])];
        for t0 in &pool {
            for t1 in inspected.iter().chain(std::iter::once(t0)) {
                for first in [true, false] {
                    jobs.push((t0.clone(), t1.clone(), first));
                }
            }
        }
        rep.set("uninspected_neighbour_programs", json!(jobs.len()));
        par_for(&jobs, rep, 4, |_, (t0, t1, ignored_first)| {
            drive::DUMMY.with(|env| uninspected_neighbour(rep, t0, t1, *ignored_first, env));
        });
    }
    rep.finish(
        "state = (program, witness map); non-trivial = maps with at least one same-layout-other-type entry",
        &["nominal rule: Err iff a supplied, declared name carries a value whose type differs from the declared type", "absent witnesses are zero-filled by satisfy(); each literal is enumerated as a non-zero value and as zero so that both verdicts occur"],
        true,
    )
}

/// Witness names: scheme 0 = N0, N1, ... (equal lengths); scheme 1 = names of different lengths whose byte order and
/// length-first order disagree.
fn wname(scheme: usize, i: usize) -> String {
    const MIXED: [&str; 8] = ["B", "AB", "A", "PREIMAGE", "PK", "SIG", "Z9", "A_LONG_WITNESS_NAME"];
    if scheme == 0 {
        format!("N{i}")
    } else {
        MIXED[i % MIXED.len()].to_string()
    }
}

/// `witness::N0` is passed to a function that ignores it, `witness::N1` is compared with a constant. The verdict must
/// depend on N1 alone: on the pruned path always; on the unpruned path this is where known finding D1(ii) shows as a
/// misread witness (the decoder gives the uninspected node a smaller type, the bits of its neighbours shift).
fn uninspected_neighbour(rep: &Report, t0: &Ty, t1: &Ty, ignored_first: bool, env: &drive::Env) {
    let mut h = gen::Helpers::default();
    h.add_fn(FnDef { name: "ign".into(), params: vec![("a".into(), t0.clone())], ret: Some(Ty::U(8)), body: (vec![], Some(Box::new(dec(7)))) });
    let lit1 = gen::vals(t1, 3).into_iter().find(|v| *v != zero_val(t1)).unwrap_or_else(|| zero_val(t1));
    let ignored = vec![let_(Pat::id("v"), Ty::U(8), fcall("ign", vec![Expr::Witness("N0".into())])), Stmt::Expr(assert_(jet("eq_8", vec![var("v"), dec(7)])))];
    let checked = vec![Stmt::Expr(assert_(h.eq_call(t1, Expr::Witness("N1".into()), val_expr(&lit1, t1))))];
    let stmts: Vec<Stmt> = if ignored_first { ignored.into_iter().chain(checked).collect() } else { checked.into_iter().chain(ignored).collect() };
    let mut items: Vec<Item> = h.fns.into_iter().map(Item::Fn).collect();
    items.push(Item::Fn(FnDef { name: "main".into(), params: vec![], ret: None, body: (stmts, None) }));
    let text = Program { items }.render();
    rep.state();
    rep.eval(1);
    let built = match drive::build(&text, simfony::Arguments::default(), false) {
        Ok(b) => b,
        Err(o) => {
            rep.violation("C05:program-not-compiled", format!("{o:?}"), json!({"kind": "compile", "program": text, "expect": "accept", "observed": "reject"}));
            return;
        }
    };
    let n1_vals: Vec<Val> = std::iter::once(lit1.clone()).chain(other_vals(t1, &lit1, 1)).collect();
    for v0 in gen::vals(t0, 3).into_iter().take(3) {
        for v1 in &n1_vals {
            let map = vec![("N0".to_string(), v0.clone(), t0.clone()), ("N1".to_string(), v1.clone(), t1.clone())];
            let expect = if *v1 == lit1 { "success" } else { "failure" };
            rep.transition(2);
            rep.eval(2);
            rep.trace(2);
            rep.nontrivial(1);
            let show = || map.iter().map(|(n, v, t)| format!("{n}: {} = {}", t.render(), render_expr(&val_expr(v, t)))).collect::<Vec<_>>();
            // pruned for the environment: the verdict must be exactly the source's
            let pruned = drive::run_pruned(&built, drive::witness_map(&map), env);
            let ok = |o: &RunOutcome| matches!((o, expect), (RunOutcome::Success, "success") | (RunOutcome::Failure(_), "failure") | (RunOutcome::SatisfyErr(_), "failure"));
            rep.class(&format!("uninspected-neighbour pruned={}", pruned.class()));
            if !ok(&pruned) {
                rep.violation(format!("C05:pruned-expected-{expect}-got-{}", pruned.class()), format!("uninspected neighbour, map {:?}: satisfy_with_env path expected {expect}, got {pruned:?}", show()), json!({"kind": "run_pruned", "program": text, "args": [], "witness": map_json(&map), "debug": false, "env": "dummy", "expect": expect, "observed": pruned.class()}));
            }
            // unpruned: same demand; a decode error or a flipped verdict here is D1(ii)
            let unpruned = drive::run(&built, drive::witness_map(&map), env);
            rep.class(&format!("uninspected-neighbour unpruned={}", unpruned.class()));
            if !ok(&unpruned) || matches!(unpruned, RunOutcome::SatisfyErr(_)) {
                let sig = match &unpruned {
                    RunOutcome::DecodeErr(_) => "C05:unpruned-decode-err:uninspected-neighbour".to_string(),
                    RunOutcome::Success | RunOutcome::Failure(_) => "C05:unpruned-verdict-flipped:uninspected-neighbour".to_string(),
                    o => format!("C05:unpruned-{}:uninspected-neighbour", o.class()),
                };
                rep.violation(sig, format!("uninspected neighbour, map {:?}: unpruned satisfy() path expected {expect}, got {unpruned:?}", show()), run_replay(&text, &map, false, expect, unpruned.class()));
            }
        }
    }
}

fn check_tuple(rep: &Report, tys: &[Ty], idx: usize, env: &drive::Env) {
    for scheme in 0..(if tys.len() >= 2 { 2 } else { 1 }) {
        check_tuple_named(rep, tys, idx, env, scheme);
    }
}

fn check_tuple_named(rep: &Report, tys: &[Ty], idx: usize, env: &drive::Env, scheme: usize) {
    let n = tys.len();
    // literal choices: 2^n (non-zero value or zero)
    let lit_sizes = vec![2usize; n];
    product(&lit_sizes, |lit_ix| {
        let lits: Vec<Val> = tys.iter().zip(lit_ix).map(|(t, &z)| if z == 1 { zero_val(t) } else { gen::vals(t, 3).into_iter().find(|v| *v != zero_val(t)).unwrap_or_else(|| zero_val(t)) }).collect();
        let mut h = gen::Helpers::default();
        let mut stmts = vec![];
        for (i, t) in tys.iter().enumerate() {
            stmts.push(Stmt::Expr(assert_(h.eq_call(t, Expr::Witness(wname(scheme, i)), val_expr(&lits[i], t)))));
        }
        let mut items: Vec<Item> = h.fns.into_iter().map(Item::Fn).collect();
        items.push(Item::Fn(FnDef { name: "main".into(), params: vec![], ret: None, body: (stmts, None) }));
        let text = Program { items }.render();
        rep.state();
        rep.eval(1);
        let built = match drive::build(&text, simfony::Arguments::default(), false) {
            Ok(b) => b,
            Err(o) => {
                rep.violation("C05:program-not-compiled", format!("{o:?}"), json!({"kind": "compile", "program": text, "expect": "accept", "observed": "reject"}));
                return;
            }
        };
        let opts: Vec<Supply> = if n >= 8 { vec![Supply::Exact, Supply::Absent, Supply::SameLayoutOtherType] } else { SUPPLIES.to_vec() };
        let sizes = vec![opts.len(); n];
        product(&sizes, |ix| {
            for extra in 0..(if n <= 2 { 3 } else { 1 }) {
                let mut map: Vec<(String, Val, Ty)> = vec![];
                let mut expect_err = false;
                let mut expect_success = true;
                let mut nontrivial = false;
                for i in 0..n {
                    let t = &tys[i];
                    match opts[ix[i]] {
                        Supply::Exact => map.push((wname(scheme, i), lits[i].clone(), t.clone())),
                        Supply::Wrong => match other_vals(t, &lits[i], 1).pop() {
                            Some(o) => {
                                map.push((wname(scheme, i), o, t.clone()));
                                expect_success = false;
                            }
                            None => map.push((wname(scheme, i), lits[i].clone(), t.clone())),
                        },
                        Supply::Absent => {
                            if lits[i] != zero_val(t) {
                                expect_success = false;
                            }
                        }
                        Supply::SameLayoutOtherType => match same_layout_partner(t) {
                            Some(o) => {
                                let v = cast_val(&lits[i], t, &o).expect("same layout");
                                map.push((wname(scheme, i), v, o));
                                expect_err = true;
                                nontrivial = true;
                            }
                            None => map.push((wname(scheme, i), lits[i].clone(), t.clone())),
                        },
                        Supply::OtherLayout => {
                            let o = if same_layout(t, &Ty::U(64)) { Ty::U(128) } else { Ty::U(64) };
                            map.push((wname(scheme, i), zero_val(&o), o));
                            expect_err = true;
                        }
                        Supply::HiddenPosition => match hidden_position_variant(t, &lits[i]) {
                            Some(o) if o != *t => {
                                map.push((wname(scheme, i), lits[i].clone(), o));
                                expect_err = true;
                                nontrivial = true;
                            }
                            _ => map.push((wname(scheme, i), lits[i].clone(), t.clone())),
                        },
                        Supply::ValueOfNext => {
                            let j = (i + 1) % n;
                            map.push((wname(scheme, i), lits[j].clone(), tys[j].clone()));
                            if tys[j] != *t {
                                expect_err = true;
                                if same_layout(&tys[j], t) {
                                    nontrivial = true;
                                }
                            } else if lits[j] != lits[i] {
                                expect_success = false;
                            }
                        }
                    }
                }
                for e in 0..extra {
                    map.push((format!("EXTRA{e}"), Val::u(8, 3 + e as u128), Ty::U(8)));
                }
                rep.state();
                rep.transition(1);
                rep.eval(1);
                rep.trace(1);
                if nontrivial {
                    rep.nontrivial(1);
                }
                let out = drive::run(&built, drive::witness_map(&map), env);
                rep.class(out.class());
                let expect = if expect_err { "satisfy-err" } else if expect_success { "success" } else { "failure" };
                let ok = matches!((&out, expect), (RunOutcome::SatisfyErr(_), "satisfy-err") | (RunOutcome::Success, "success") | (RunOutcome::Failure(_), "failure"));
                if !ok {
                    rep.violation(
                        format!("C05:expected-{expect}-got-{}", out.class()),
                        format!("map {:?}: expected {expect}, got {out:?}", map.iter().map(|(n, v, t)| format!("{n}: {} = {}", t.render(), render_expr(&val_expr(v, t)))).collect::<Vec<_>>()),
                        run_replay(&text, &map, false, expect, out.class()),
                    );
                }
            }
        });
        if (idx % 37 == 5 && lit_ix.iter().all(|&z| z == 0)) || rep.no_sample_yet() {
            rep.sample(4, || json!({"types": tys.iter().map(|t| t.render()).collect::<Vec<_>>(), "program": text}));
        }
    });
}
