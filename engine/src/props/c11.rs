//! C11 — integer literals denote their mathematical value.  Oracle: R4.

use crate::big::Big;
use crate::drive::{self, RunOutcome};
use crate::explore::par_for;
use crate::lang::*;
use crate::props::common::*;
use crate::refmodel::{literal, LitResult};
use crate::report::Report;
use serde_json::json;
use simfony::parse::ParseFromStr;
use std::collections::BTreeSet;

const WIDTHS: [u16; 9] = [1, 2, 4, 8, 16, 32, 64, 128, 256];

fn values_for(n: u16, quick: bool) -> Vec<Big> {
    let nn = n as usize;
    let mut v: Vec<Big> = vec![];
    let all_upto = if quick { 8 } else { 16 };
    if n <= all_upto {
        for x in 0..(1u128 << n) {
            v.push(Big::from_u128(x));
        }
    }
    let one = Big::from_u128(1);
    for k in 0..=nn + 1 {
        let p = Big::pow2(k);
        v.push(p.sub(&one));
        v.push(p.clone());
        v.push(p.add(&one));
    }
    let mut t = Big::from_u128(1);
    for _k in 0..=78 {
        v.push(t.sub(&one));
        v.push(t.clone());
        t = t.mul_small(10);
        if t.bit_len() > nn + 8 {
            break;
        }
    }
    // carry patterns 0xff..00 and alternating bits
    if n >= 16 {
        let max = Big::pow2(nn).sub(&one);
        v.push(max.sub(&Big::pow2(nn / 2).sub(&one))); // 0xff..00..
        v.push(Big::from_bits(&(0..nn).map(|i| i % 2 == 0).collect::<Vec<_>>()));
        v.push(crate::gen::pattern_uint(n));
    }
    v.push(Big::pow2(nn).sub(&one).mul_small(10));
    let mut seen = BTreeSet::new();
    v.retain(|x| seen.insert(x.clone()));
    v
}

fn decorate(digits: &str, quick: bool) -> Vec<String> {
    let cs: Vec<char> = digits.chars().collect();
    let n = cs.len();
    let mut out = vec![digits.to_string()];
    let positions: Vec<usize> = if quick && n > 6 { vec![0, 1, n / 2, n - 1, n] } else { (0..=n).collect() };
    for p in positions {
        let mut s: String = cs[..p].iter().collect();
        s.push('_');
        s.extend(cs[p..].iter());
        out.push(s);
    }
    if n >= 2 {
        let mut s: String = cs[..n / 2].iter().collect();
        s.push_str("__");
        s.extend(cs[n / 2..].iter());
        out.push(s);
        out.push(cs.iter().map(|c| c.to_string()).collect::<Vec<_>>().join("_"));
    }
    out.push(format!("_{digits}_"));
    for z in [1usize, 5, 80] {
        out.push(format!("{}{}", "0".repeat(z), digits));
    }
    out.push(format!("{digits}0")); // one digit more
    out.push(format!("{digits}1"));
    if n >= 2 {
        out.push(cs[..n - 1].iter().collect()); // one digit fewer
        out.push(cs[1..].iter().collect());
    }
    out
}

struct Case {
    lit: Lit,
    ty: Ty,
}

fn cases(quick: bool) -> Vec<Case> {
    let mut out = vec![];
    for n in WIDTHS {
        let ty = Ty::U(n);
        for v in values_for(n, quick) {
            for d in decorate(&v.to_decimal(), quick) {
                out.push(Case { lit: Lit::Dec(d), ty: ty.clone() });
            }
            if v.bit_len() <= n as usize {
                for d in decorate(&v.to_bin(n as usize), quick || n > 32) {
                    out.push(Case { lit: Lit::Bin(d), ty: ty.clone() });
                }
                let hd = ((n as usize) + 3) / 4;
                let hex = v.to_hex(hd);
                for d in decorate(&hex, quick) {
                    out.push(Case { lit: Lit::Hex(d.clone()), ty: ty.clone() });
                }
                out.push(Case { lit: Lit::Hex(hex.to_uppercase()), ty: ty.clone() });
            }
        }
        // digit-less forms
        for s in ["_", "__", "___"] {
            out.push(Case { lit: Lit::Dec(s.into()), ty: ty.clone() });
            out.push(Case { lit: Lit::Bin(s.into()), ty: ty.clone() });
            out.push(Case { lit: Lit::Hex(s.into()), ty: ty.clone() });
        }
    }
    // hex at [u8; n]
    for n in (0..=33usize).chain([64]) {
        let ty = Ty::arr(Ty::U(8), n);
        let bytes: Vec<u8> = (0..n).map(|i| 0xf1u8.wrapping_sub((i as u8).wrapping_mul(7))).collect();
        let hex: String = bytes.iter().map(|b| format!("{b:02x}")).collect();
        if n > 0 {
            for d in decorate(&hex, true) {
                out.push(Case { lit: Lit::Hex(d), ty: ty.clone() });
            }
            out.push(Case { lit: Lit::Hex(hex.to_uppercase()), ty: ty.clone() });
            out.push(Case { lit: Lit::Hex("0".repeat(2 * n)), ty: ty.clone() });
            out.push(Case { lit: Lit::Dec("0".into()), ty: ty.clone() });
        }
        out.push(Case { lit: Lit::Hex("_".into()), ty: ty.clone() });
    }
    // literals at non-integer types
    for ty in [Ty::Bool, Ty::unit(), Ty::opt(Ty::U(8)), Ty::tup(vec![Ty::U(8)]), Ty::arr(Ty::U(16), 1), Ty::arr(Ty::Bool, 8)] {
        for lit in [Lit::Dec("0".into()), Lit::Dec("1".into()), Lit::Bin("1".into()), Lit::Bin("00000001".into()), Lit::Hex("01".into()), Lit::Hex("0001".into())] {
            out.push(Case { lit, ty: ty.clone() });
        }
    }
    out
}

fn lit_text(l: &Lit) -> String {
    render_expr(&Expr::Lit(l.clone()))
}

/// 256-bit values for the decimal printer: powers of ten and of two with their neighbours, the maximum, and for
/// every decimal position a 78-digit pattern of nines with a single zero (resp. a single one among zeros) there.
fn u256_print_alphabet(quick: bool) -> Vec<Big> {
    let max = Big::pow2(256).sub(&Big::from_u128(1));
    let one = Big::from_u128(1);
    let mut v = vec![Big::zero(), one.clone(), max.clone()];
    let mut p10 = one.clone();
    let mut pows = vec![];
    for _ in 0..78 {
        pows.push(p10.clone());
        p10 = p10.mul_small(10);
    }
    for p in &pows {
        for x in [p.clone(), p.sub(&one), p.add(&one), p.mul_small(3).add(&Big::from_u128(42)), p.mul_small(7)] {
            if !max.lt(&x) {
                v.push(x);
            }
        }
    }
    for k in (0..256).step_by(if quick { 3 } else { 1 }) {
        let p = Big::pow2(k);
        v.push(p.clone());
        v.push(p.add(&one));
        if k > 0 {
            v.push(p.sub(&one));
        }
    }
    // nines with one zero digit at position i (77-digit numbers, all below 2^256)
    let nines77 = pows[77].sub(&one);
    for (i, p) in pows.iter().enumerate().take(77) {
        v.push(nines77.sub(&p.mul_small(9)));
        // a one at position i, a one at position 0
        if i > 0 {
            v.push(p.add(&one));
        }
        // two-digit windows around position i: ...0x... with x = 5
        if i + 1 < 77 {
            v.push(nines77.sub(&pows[i + 1].mul_small(9)).sub(&p.mul_small(4)));
        }
    }
    v.sort_by(|a, b| a.cmp_big(b));
    v.dedup();
    v
}

pub fn run(rep: &Report) -> i32 {
    let quick = rep.is_quick();
    let cs = cases(quick);
    rep.set("bounds", json!({"widths": WIDTHS, "cases": cs.len(), "byte_array_lengths": "0..33,64", "underscore_positions": if quick {"{0,1,mid,len-1,len} for long digit strings, all otherwise"} else {"all"}}));
    par_for(&cs, rep, 256, |i, c| {
        drive::DUMMY.with(|env| check_case(rep, c, i, env));
    });
    // the library's own 256-bit decimal printer / parser (simfony::num::U256): print must be the decimal numeral,
    // and the numeral must parse back (as a U256 and as a u256 literal)
    let vals = u256_print_alphabet(quick);
    rep.set("u256_decimal_print_values", json!(vals.len()));
    par_for(&vals, rep, 64, |_, b| {
        use std::str::FromStr;
        rep.state();
        rep.transition(1);
        rep.eval(3);
        rep.trace(3);
        let want = b.to_decimal();
        if want.contains('0') {
            rep.nontrivial(1);
        }
        let mut arr = [0u8; 32];
        arr.copy_from_slice(&b.to_bytes(32));
        let u = simfony::num::U256::from_byte_array(arr);
        let replay = |what: &str| json!({"kind": "u256_decimal", "hex": b.to_hex(64), "decimal": want, "what": what});
        match drive::guard(|| u.to_string()) {
            Err(p) => rep.violation(format!("C11:panic:u256-display:{}", drive::panic_site(&p)), format!("U256 Display panicked for 0x{}: {p}", b.to_hex(64)), replay("panic")),
            Ok(got) if got != want => {
                rep.class("u256-printed-wrong");
                rep.violation("C11:u256-decimal-print", format!("U256 0x{} prints as {got}, its decimal numeral is {want}", b.to_hex(64)), replay("print"));
            }
            Ok(_) => rep.class("u256-printed-ok"),
        }
        match drive::guard(|| simfony::num::U256::from_str(&want)) {
            Ok(Ok(v)) if v == u => {}
            other => rep.violation("C11:u256-decimal-parse", format!("U256::from_str({want}) gives {:?}", other.map(|r| r.map(|v| v.to_string()).map_err(|e| e.to_string()))), replay("parse")),
        }
        let sty = drive::sim_ty(&Ty::U(256));
        match drive::guard(|| simfony::Value::parse_from_str(&want, &sty)) {
            Ok(Ok(v)) if v == drive::sim_val(&Val::U(256, b.clone()), &Ty::U(256)) => {}
            other => rep.violation("C11:u256-decimal-literal", format!("{want} at u256 gives {:?}", other.map(|r| r.map(|v| v.to_string()).map_err(|e| e.to_string()))), replay("literal")),
        }
    });
    // several literals in one scope: ordered pairs and triples of valid literals of one type whose digit strings
    // coincide across notations (`0x10`, `10`, `0b10`), in a program (each compared with its own witness) and in a
    // witness module; a literal's value must not depend on the literals written before it
    let seqs = literal_sequences();
    rep.set("literal_sequences", json!(seqs.len()));
    par_for(&seqs, rep, 16, |_, (ty, lits)| {
        drive::DUMMY.with(|env| check_sequence(rep, ty, lits, env));
    });
    rep.finish(
        "state = (literal text, type); non-trivial = literals containing an underscore or sitting at a boundary (2^N-1, 2^N)",
        &["R4 (literal rules) written from C11's statement and the book", "witness values for the run-time comparison are built with the Rust value constructors"],
        true,
    )
}

fn check_case(rep: &Report, c: &Case, idx: usize, env: &drive::Env) {
    rep.state();
    rep.transition(1);
    let text = lit_text(&c.lit);
    let expect = literal(&c.lit, &c.ty);
    let sty = drive::sim_ty(&c.ty);
    let digits = match &c.lit {
        Lit::Dec(s) | Lit::Bin(s) | Lit::Hex(s) => s.clone(),
        _ => String::new(),
    };
    if digits.contains('_') {
        rep.nontrivial(1);
    } else if let (LitResult::Ok(Val::U(n, b)), true) = (&expect, true) {
        if b.bit_len() == *n as usize && *b == Big::pow2(*n as usize).sub(&Big::from_u128(1)) {
            rep.nontrivial(1);
        }
    }
    // (1) value parsing
    rep.eval(1);
    rep.trace(1);
    let parsed = drive::guard(|| simfony::Value::parse_from_str(&text, &sty));
    let replay = |what: &str| json!({"kind": "parse_value", "text": text, "ty": c.ty.render(), "expect": format!("{expect:?}"), "entry": what});
    match (&parsed, &expect) {
        (Err(p), _) => {
            rep.class("panic");
            rep.violation(format!("C11:panic:parse_value:{}", drive::panic_site(p)), format!("Value::parse_from_str({text:?}, {}) panicked: {p}", c.ty.render()), replay("Value::parse_from_str"));
            return;
        }
        (Ok(Ok(v)), LitResult::Ok(ev)) => {
            if *v != drive::sim_val(ev, &c.ty) {
                rep.class("wrong-value");
                rep.violation("C11:wrong-value", format!("{text} at {} parsed as {v}, expected {}", c.ty.render(), render_expr(&crate::refmodel::val_expr(ev, &c.ty))), replay("Value::parse_from_str"));
                return;
            }
            rep.class("accepted-ok");
            // printed text parses back
            let printed = v.to_string();
            rep.eval(1);
            match drive::guard(|| simfony::Value::parse_from_str(&printed, &sty)) {
                Ok(Ok(v2)) if v2 == *v => {}
                other => {
                    rep.violation("C11:print-parse", format!("printed text {printed:?} of {text} at {} does not parse back: {:?}", c.ty.render(), other.map(|r| r.map(|v| v.to_string()).map_err(|e| e.to_string()))), replay("Display"));
                }
            }
        }
        (Ok(Err(_)), LitResult::Reject(_)) => rep.class("rejected-ok"),
        (Ok(Ok(_)), LitResult::Reject(_)) => {
            // Value::parse_from_str parses a *prefix* of its input (the `expression` rule has no end anchor), so
            // e.g. "0b_" is read as the decimal literal "0" followed by ignored text.  Acceptance of a literal is
            // therefore judged on a program (`let x: T = LIT;`, C11's observation point) below, not here.
            rep.class("value-parser-prefix-accept(not judged here)");
        }
        (Ok(Err(e)), LitResult::Ok(_)) => {
            rep.class("rejected-should-accept");
            rep.violation("C11:rejected-valid-literal", format!("{text} at {} rejected: {}", c.ty.render(), drive::first_line(&e.to_string())), replay("Value::parse_from_str"));
            return;
        }
    }
    // (2) acceptance in a program (every case), (3) run-time comparison (accepted ones, subset)
    let prog_text = format!("fn main() {{\n    let x: {} = {};\n}}\n", c.ty.render(), text);
    rep.eval(1);
    rep.trace(1);
    let acc = drive::guard(|| simfony::TemplateProgram::new(prog_text.as_str()).map(|_| ()));
    let should = matches!(expect, LitResult::Ok(_));
    match acc {
        Err(p) => {
            rep.violation(format!("C11:panic:compile:{}", drive::panic_site(&p)), format!("compiling `let x: {} = {text};` panicked: {p}", c.ty.render()), json!({"kind": "compile", "program": prog_text, "expect": if should {"accept"} else {"reject"}, "observed": "panic"}));
            return;
        }
        Ok(r) => {
            if r.is_ok() != should {
                rep.violation(
                    if should { "C11:program-rejected-valid-literal".to_string() } else { "C11:program-accepted-invalid-literal".to_string() },
                    format!("`let x: {} = {text};` {} but the literal rule says {}", c.ty.render(), if r.is_ok() { "accepted" } else { "rejected" }, if should { "accept" } else { "reject" }),
                    json!({"kind": "compile", "program": prog_text, "expect": if should {"accept"} else {"reject"}, "observed": if r.is_ok() {"accept"} else {"reject"}}),
                );
                return;
            }
        }
    }
    if let LitResult::Ok(ev) = &expect {
        // run-time comparison for a deterministic subset (every 4th accepted case, and all digit-decorated ones)
        if idx % 4 == 0 || digits.contains('_') && idx % 2 == 0 {
            let mut h = crate::gen::Helpers::default();
            let eq = h.eq_call(&c.ty, Expr::Lit(c.lit.clone()), Expr::Witness("V".into()));
            let mut items: Vec<Item> = h.fns.into_iter().map(Item::Fn).collect();
            items.push(Item::Fn(FnDef { name: "main".into(), params: vec![], ret: None, body: (vec![Stmt::Expr(assert_(eq))], None) }));
            let ptext = Program { items }.render();
            rep.eval(1);
            match drive::build(&ptext, simfony::Arguments::default(), false) {
                Ok(built) => {
                    let mut others = other_vals(&c.ty, ev, 1);
                    let mut runs = vec![(ev.clone(), true)];
                    if let Some(o) = others.pop() {
                        runs.push((o, false));
                    }
                    for (v, should) in runs {
                        let w = vec![("V".to_string(), v.clone(), c.ty.clone())];
                        rep.eval(1);
                        rep.trace(1);
                        let out = drive::run(&built, drive::witness_map(&w), env);
                        let ok = matches!((&out, should), (RunOutcome::Success, true) | (RunOutcome::Failure(_), false));
                        if !ok {
                            rep.violation(
                                format!("C11:runtime-value:{}", out.class()),
                                format!("literal {text} at {} compared with witness {}: expected {}, got {:?}", c.ty.render(), render_expr(&crate::refmodel::val_expr(&v, &c.ty)), if should { "success" } else { "failure" }, out),
                                json!({"kind": "run", "program": ptext, "args": [], "witness": map_json(&w), "debug": false, "env": "dummy", "expect": if should {"success"} else {"failure"}, "observed": out.class()}),
                            );
                        }
                    }
                }
                Err(e) => rep.violation("C11:program-rejected-valid-literal", format!("program comparing literal {text} at {} not compiled: {e:?}", c.ty.render()), json!({"kind": "compile", "program": ptext, "expect": "accept", "observed": "reject"})),
            }
        }
    }
    if idx % 9973 == 0 || rep.no_sample_yet() {
        rep.sample(5, || json!({"literal": text, "type": c.ty.render(), "r4": format!("{expect:?}")}));
    }
}

/// Sequences (length 2 and 3) of valid literals of one integer type.  The digit strings are chosen so that they are
/// valid in more than one notation at that width; every ordered pair with equal digit strings (both orders, also the
/// same literal twice), every pair of neighbours in the pool, and every permutation of a same-digits triple.
fn literal_sequences() -> Vec<(Ty, Vec<Lit>)> {
    let mut out = vec![];
    for n in WIDTHS {
        let ty = Ty::U(n);
        let mut lens: BTreeSet<usize> = [1usize, 2, 3, n as usize].into_iter().collect();
        if n >= 8 {
            lens.insert(n as usize / 4);
        }
        let mut digit_strings: BTreeSet<String> = BTreeSet::new();
        for l in lens {
            if l == 0 || l > 256 {
                continue;
            }
            digit_strings.insert(format!("1{}", "0".repeat(l - 1)));
            digit_strings.insert(format!("{}1", "0".repeat(l - 1)));
            digit_strings.insert("1".repeat(l));
            digit_strings.insert("10".repeat(l).chars().take(l).collect());
            digit_strings.insert("01".repeat(l).chars().take(l).collect());
        }
        let mut pool: Vec<Lit> = vec![];
        for d in &digit_strings {
            for l in [Lit::Dec(d.clone()), Lit::Bin(d.clone()), Lit::Hex(d.clone())] {
                if matches!(literal(&l, &ty), LitResult::Ok(_)) {
                    pool.push(l);
                }
            }
        }
        let digits = |l: &Lit| match l {
            Lit::Dec(s) | Lit::Bin(s) | Lit::Hex(s) => s.clone(),
            _ => String::new(),
        };
        for (i, a) in pool.iter().enumerate() {
            for (j, b) in pool.iter().enumerate() {
                if digits(a) == digits(b) || j == i + 1 || i == j + 1 {
                    out.push((ty.clone(), vec![a.clone(), b.clone()]));
                }
            }
        }
        for d in &digit_strings {
            let same: Vec<&Lit> = pool.iter().filter(|l| digits(l) == *d).collect();
            if same.len() == 3 {
                for perm in [[0, 1, 2], [0, 2, 1], [1, 0, 2], [1, 2, 0], [2, 0, 1], [2, 1, 0]] {
                    out.push((ty.clone(), perm.iter().map(|&k| same[k].clone()).collect()));
                }
            }
        }
    }
    out
}

fn check_sequence(rep: &Report, ty: &Ty, lits: &[Lit], env: &drive::Env) {
    rep.state();
    rep.transition(lits.len() as u64);
    let texts: Vec<String> = lits.iter().map(lit_text).collect();
    let vals: Vec<Val> = lits
        .iter()
        .map(|l| match literal(l, ty) {
            LitResult::Ok(v) => v,
            LitResult::Reject(_) => unreachable!("pool holds valid literals only"),
        })
        .collect();
    let differing = vals.windows(2).any(|w| w[0] != w[1]);
    if differing {
        rep.nontrivial(1);
    }
    // program: let a0: T = l0; let a1: T = l1; ...; assert!(eq(a_i, witness::V_i));
    let mut h = crate::gen::Helpers::default();
    let mut stmts: Vec<Stmt> = vec![];
    for (i, l) in lits.iter().enumerate() {
        stmts.push(Stmt::Let(Pat::id(&format!("a{i}")), ty.clone(), Expr::Lit(l.clone())));
    }
    for i in 0..lits.len() {
        let eq = h.eq_call(ty, Expr::Var(format!("a{i}")), Expr::Witness(format!("V{i}")));
        stmts.push(Stmt::Expr(assert_(eq)));
    }
    let mut items: Vec<Item> = h.fns.into_iter().map(Item::Fn).collect();
    items.push(Item::Fn(FnDef { name: "main".into(), params: vec![], ret: None, body: (stmts, None) }));
    let ptext = Program { items }.render();
    rep.eval(1);
    match drive::build(&ptext, simfony::Arguments::default(), false) {
        Ok(built) => {
            let mut runs: Vec<(Vec<Val>, bool)> = vec![(vals.clone(), true)];
            for i in 0..vals.len() {
                if let Some(o) = other_vals(ty, &vals[i], 1).pop() {
                    let mut vs = vals.clone();
                    vs[i] = o;
                    runs.push((vs, false));
                }
            }
            for (vs, should) in runs {
                let w: Vec<(String, Val, Ty)> = vs.iter().enumerate().map(|(i, v)| (format!("V{i}"), v.clone(), ty.clone())).collect();
                rep.eval(1);
                rep.trace(1);
                let out = drive::run(&built, drive::witness_map(&w), env);
                let ok = matches!((&out, should), (RunOutcome::Success, true) | (RunOutcome::Failure(_), false));
                rep.class(if ok { "sequence-run-ok" } else { "sequence-run-wrong" });
                if !ok {
                    rep.violation(
                        format!("C11:sequence-runtime-value:{}", out.class()),
                        format!("literals {} at {} in one scope, compared with witnesses {}: expected {}, got {:?}", texts.join(", "), ty.render(), vs.iter().map(|v| render_expr(&crate::refmodel::val_expr(v, ty))).collect::<Vec<_>>().join(", "), if should { "success" } else { "failure" }, out),
                        json!({"kind": "run", "program": ptext, "args": [], "witness": map_json(&w), "debug": false, "env": "dummy", "expect": if should {"success"} else {"failure"}, "observed": out.class()}),
                    );
                }
            }
        }
        Err(e) => rep.violation("C11:program-rejected-valid-literal", format!("program with the valid literals {} at {} not compiled: {e:?}", texts.join(", "), ty.render()), json!({"kind": "compile", "program": ptext, "expect": "accept", "observed": "reject"})),
    }
    // witness module with the same literals
    let mtext = format!("mod witness {{\n{}}}\n", texts.iter().enumerate().map(|(i, t)| format!("    const A{i}: {} = {t};\n", ty.render())).collect::<String>());
    rep.eval(1);
    rep.trace(1);
    let replay = json!({"kind": "witness_module", "text": mtext, "expect": vals.iter().map(|v| render_expr(&crate::refmodel::val_expr(v, ty))).collect::<Vec<_>>()});
    match drive::guard(|| simfony::WitnessValues::parse_from_str(&mtext).map(|m| (0..vals.len()).map(|i| m.get(&simfony::str::WitnessName::from_str_unchecked(&format!("A{i}"))).cloned()).collect::<Vec<_>>())) {
        Err(p) => rep.violation(format!("C11:panic:witness-module:{}", drive::panic_site(&p)), format!("parsing {mtext:?} panicked: {p}"), replay),
        Ok(Err(e)) => rep.violation("C11:module-rejected-valid-literal", format!("witness module {mtext:?} rejected: {}", drive::first_line(&e.to_string())), replay),
        Ok(Ok(got)) => {
            let want: Vec<Option<simfony::Value>> = vals.iter().map(|v| Some(drive::sim_val(v, ty))).collect();
            if got != want {
                rep.class("sequence-module-wrong");
                rep.violation("C11:sequence-module-value", format!("witness module {mtext:?} assigns {:?}", got.iter().map(|v| v.as_ref().map(|v| v.to_string())).collect::<Vec<_>>()), replay);
            } else {
                rep.class("sequence-module-ok");
            }
        }
    }
}
