//! C17 — names are opaque: renaming, alias inlining, parentheses and layout never change meaning.

use crate::drive;
use crate::explore::par_for;
use crate::lang::*;
use crate::mutate::{walk_exprs_mut, walk_pats_mut, walk_tys_mut};
use crate::props::c15::identifier_pool;
use crate::refmodel::{self, BUILTIN_ALIASES, BUILTIN_FUNCTIONS, BUILTIN_TYPES, KEYWORDS, VALUE_WORDS};
use crate::report::Report;
use serde_json::json;
use simfony::parse::ParseFromStr;

/// Naming roles.
const ROLES: [&str; 8] = ["variable", "pattern-variable", "match-binder", "fn-parameter", "function", "alias", "witness", "parameter"];

/// The baseline program: every naming role occurs, with placeholder names "V_", "PV_", "MB_", "FP_", "FN_", "AL_", "WIT_", "PAR_".
fn baseline() -> Program {
    let u8t = Ty::U(8);
    let al = || Ty::Alias("AL_".into());
    Program {
        items: vec![
            Item::Alias("AL_".into(), Ty::tup(vec![u8t.clone(), Ty::opt(u8t.clone())])),
            Item::Fn(FnDef {
                name: "FN_".into(),
                params: vec![("FP_".into(), u8t.clone()), ("other".into(), al())],
                ret: Some(u8t.clone()),
                body: (vec![let_(Pat::Tuple(vec![Pat::id("PV_"), Pat::Ignore]), al(), var("other"))], Some(Box::new(jet("xor_8", vec![var("FP_"), var("PV_")])))),
            }),
            Item::Fn(FnDef {
                name: "stepf".into(),
                params: vec![("e".into(), u8t.clone()), ("acc".into(), u8t.clone())],
                ret: Some(u8t.clone()),
                body: (vec![], Some(Box::new(fcall("FN_", vec![var("e"), Expr::Tuple(vec![var("acc"), Expr::None])])))),
            }),
            Item::Fn(FnDef {
                name: "main".into(),
                params: vec![],
                ret: None,
                body: (
                    vec![
                        let_(Pat::id("V_"), u8t.clone(), Expr::Witness("WIT_".into())),
                        let_(Pat::id("pair"), al(), Expr::Tuple(vec![var("V_"), Expr::Some(Box::new(Expr::Param("PAR_".into())))])),
                        let_(Pat::Tuple(vec![Pat::id("PV_"), Pat::id("opt")]), al(), var("pair")),
                        let_(Pat::id("m"), u8t.clone(), match_(var("opt"), (MPat::None, dec(0)), (MPat::Some("MB_".into(), u8t.clone()), var("MB_")))),
                        let_(Pat::id("r"), u8t.clone(), fcall("FN_", vec![var("m"), var("pair")])),
                        let_(Pat::id("f"), u8t.clone(), call(CallName::Fold("stepf".into(), 4), vec![Expr::List(vec![var("r"), var("PV_")]), dec(1)])),
                        Stmt::Expr(assert_(jet("eq_8", vec![var("f"), Expr::Witness("EXPECT".into())]))),
                    ],
                    None,
                ),
            }),
        ],
    }
}

fn placeholder(role: &str) -> &'static str {
    match role {
        "variable" => "V_",
        "pattern-variable" => "PV_",
        "match-binder" => "MB_",
        "fn-parameter" => "FP_",
        "function" => "FN_",
        "alias" => "AL_",
        "witness" => "WIT_",
        "parameter" => "PAR_",
        _ => unreachable!(),
    }
}

/// Consistently rename the placeholder of one role.
fn rename(p: &Program, from: &str, to: &str) -> Program {
    let mut q = p.clone();
    let r = |s: &mut String| {
        if s == from {
            *s = to.to_string();
        }
    };
    for it in &mut q.items {
        match it {
            Item::Alias(n, _) => r(n),
            Item::Fn(f) => {
                r(&mut f.name);
                for (n, _) in &mut f.params {
                    r(n);
                }
            }
            _ => {}
        }
    }
    fn ty_rename(t: &mut Ty, from: &str, to: &str) {
        match t {
            Ty::Alias(n) if n == from => *n = to.to_string(),
            Ty::Tuple(v) => v.iter_mut().for_each(|x| ty_rename(x, from, to)),
            Ty::Array(x, _) | Ty::List(x, _) | Ty::Option(x) => ty_rename(x, from, to),
            Ty::Either(a, b) => {
                ty_rename(a, from, to);
                ty_rename(b, from, to);
            }
            _ => {}
        }
    }
    walk_tys_mut(&mut q, &mut |t| ty_rename(t, from, to));
    walk_pats_mut(&mut q, &mut |pt| {
        if let Pat::Id(n) = pt {
            if n == from {
                *n = to.to_string();
            }
        }
    });
    walk_exprs_mut(&mut q, &mut |e| match e {
        Expr::Var(n) | Expr::Witness(n) | Expr::Param(n) => {
            if n == from {
                *n = to.to_string();
            }
        }
        Expr::Match(_, a, b) => {
            for arm in [a, b] {
                if let MPat::Some(n, _) | MPat::Left(n, _) | MPat::Right(n, _) = &mut arm.pat {
                    if n == from {
                        *n = to.to_string();
                    }
                }
            }
        }
        Expr::Call(CallName::Fn(n), _) | Expr::Call(CallName::Fold(n, _), _) | Expr::Call(CallName::ForWhile(n), _) => {
            if n == from {
                *n = to.to_string();
            }
        }
        _ => {}
    });
    q
}

fn plain_names(p: &Program) -> Program {
    let mut q = p.clone();
    for (role, plain) in ROLES.iter().zip(["v", "pv", "mb", "fp", "helper", "Pair", "WIT", "PAR"]) {
        q = rename(&q, placeholder(role), plain);
    }
    q
}

fn is_reserved(n: &str) -> bool {
    KEYWORDS.contains(&n) || BUILTIN_TYPES.contains(&n) || BUILTIN_ALIASES.contains(&n) || BUILTIN_FUNCTIONS.contains(&n) || VALUE_WORDS.contains(&n) || ["jet", "witness", "param", "main"].contains(&n)
}

fn has_reserved_prefix(n: &str) -> bool {
    let words: Vec<&str> = KEYWORDS.iter().chain(BUILTIN_TYPES.iter()).chain(BUILTIN_ALIASES.iter()).chain(BUILTIN_FUNCTIONS.iter()).chain(VALUE_WORDS.iter()).copied().collect();
    words.iter().any(|w| n.len() > w.len() && n.starts_with(w))
}

/// Comment bodies: empty, runs of stars before the terminator, terminator look-alikes, openers inside comments,
/// line breaks, code and non-ASCII text inside; line comments end with the line feed that terminates them.
fn comment_alphabet() -> Vec<String> {
    [
        "/**/", "/***/", "/****/", "/*****/", "/* **/", "/*a**/", "/*** b ***/", "/* * */", "/* / */", "/*/*/", "/* /* */", "/* // */", "/* \n */", "/* \r\n */", "/*\"*/", "/* ; } fn main() { */", "/*é嗨*/", "/* *\n * x\n **/",
        "//\n", "///\n", "// */\n", "// /*\n", "//*\n", "//\r\n", "// é嗨 ; }\n", "// x\n// y\n",
    ]
    .iter()
    .map(|s| s.to_string())
    .collect()
}

fn cmr_of(text: &str) -> Result<String, String> {
    let args = vec![("PAR".to_string(), Val::u(8, 9), Ty::U(8))];
    // the parameter may have been renamed: synthesise from parameters()
    let t = match drive::guard(|| simfony::TemplateProgram::new(text)) {
        Ok(Ok(t)) => t,
        Ok(Err(e)) => return Err(crate::props::c04::last_line(&e)),
        Err(p) => return Err(format!("panic: {p}")),
    };
    let mut a = vec![];
    for (n, pt) in t.parameters().iter() {
        a.push((n.as_inner().to_string(), Val::u(8, 9), drive::from_sim_ty(pt)));
    }
    let _ = args;
    match drive::guard(|| t.instantiate(drive::argument_map(&a), false).map(|c| c.commit().cmr().to_string())) {
        Ok(Ok(c)) => Ok(c),
        Ok(Err(e)) => Err(crate::props::c04::last_line(&e)),
        Err(p) => Err(format!("panic: {p}")),
    }
}

pub fn run(rep: &Report) -> i32 {
    let quick = rep.is_quick();
    let base = plain_names(&baseline());
    let base_text = base.render();
    let base_cmr = match cmr_of(&base_text) {
        Ok(c) => c,
        Err(e) => {
            rep.violation("C17:baseline-rejected", format!("baseline program rejected: {e}"), json!({"kind": "compile", "program": base_text, "expect": "accept", "observed": "reject"}));
            return rep.finish("baseline rejected", &[], false);
        }
    };
    let (v, _) = refmodel::check_program(&base);
    if v != refmodel::Verdict::WellTyped {
        rep.machinery(format!("C17 baseline not well-typed per R1: {v:?}"));
    }
    let pool: Vec<String> = identifier_pool().into_iter().filter(|n| !is_reserved(n)).collect();
    rep.set("bounds", json!({"roles": ROLES, "identifiers": pool.len(), "layouts": ALL_LAYOUTS.len(), "pairs_of_roles": if quick {"every 11th identifier"} else {"every 3rd identifier"}}));
    // (1) one role at a time x every identifier x layouts
    let mut jobs: Vec<(usize, usize, Option<(usize, usize)>)> = vec![];
    for r in 0..ROLES.len() {
        for i in 0..pool.len() {
            jobs.push((r, i, None));
        }
    }
    {
        for r in 0..ROLES.len() {
            for r2 in (r + 1)..ROLES.len() {
                for i in (0..pool.len()).step_by(if quick { 11 } else { 3 }) {
                    jobs.push((r, i, Some((r2, (i * 7 + 1) % pool.len()))));
                }
            }
        }
    }
    par_for(&jobs, rep, 16, |ji, &(r, i, second)| {
        let id = &pool[i];
        let mut p = rename(&baseline(), placeholder(ROLES[r]), id);
        let mut label = format!("{}={}", ROLES[r], id);
        if let Some((r2, i2)) = second {
            if pool[i2] == *id {
                return;
            }
            p = rename(&p, placeholder(ROLES[r2]), &pool[i2]);
            label = format!("{label} {}={}", ROLES[r2], pool[i2]);
        }
        let p = plain_names(&p);
        // a renaming must not capture another name of the program
        let (verdict, _) = refmodel::check_program(&p);
        if verdict != refmodel::Verdict::WellTyped {
            rep.class("renaming-captures-a-name(skipped)");
            return;
        }
        let layouts: Vec<Layout> = if quick { vec![Layout::Pretty, Layout::OneLine, Layout::Comments] } else { ALL_LAYOUTS.to_vec() };
        for l in layouts {
            let text = p.render_with(RenderOpts::default(), l);
            rep.state();
            rep.transition(1);
            rep.eval(1);
            rep.trace(1);
            if has_reserved_prefix(id) {
                rep.nontrivial(1);
            }
            match cmr_of(&text) {
                Ok(c) if c == base_cmr => rep.class("accepted-equal-cmr"),
                Ok(_) => {
                    rep.class("DIFFERENT-CMR");
                    rep.violation(format!("C17:renaming-changes-program:{}", ROLES[r]), format!("{label} layout {l:?}: the renamed program compiles to a different program"), json!({"kind": "compile", "program": text, "expect": "accept", "observed": "different-cmr"}));
                }
                Err(e) => {
                    rep.class("REJECTED");
                    // classify by role and by the reserved word the identifier extends
                    rep.violation(format!("C17:identifier-rejected:{}", ROLES[r]), format!("{label} layout {l:?}: rejected: {e}"), json!({"kind": "compile", "program": text, "expect": "accept", "observed": "reject"}));
                }
            }
        }
        if ji % 499 == 3 || rep.no_sample_yet() {
            rep.sample(4, || json!({"label": label, "program": p.render()}));
        }
    });
    // (2) alias inlining and extra parentheses around every sub-expression, one at a time
    {
        let mut inlined = base.clone();
        let alias_def = Ty::tup(vec![Ty::U(8), Ty::opt(Ty::U(8))]);
        fn inline(t: &mut Ty, def: &Ty) {
            match t {
                Ty::Alias(n) if n == "Pair" => *t = def.clone(),
                Ty::Tuple(v) => v.iter_mut().for_each(|x| inline(x, def)),
                Ty::Array(x, _) | Ty::List(x, _) | Ty::Option(x) => inline(x, def),
                Ty::Either(a, b) => {
                    inline(a, def);
                    inline(b, def);
                }
                _ => {}
            }
        }
        walk_tys_mut(&mut inlined, &mut |t| inline(t, &alias_def));
        let variants: Vec<(String, Program)> = {
            let mut v = vec![("alias-inlined".to_string(), inlined.clone())];
            let mut no_alias = inlined.clone();
            no_alias.items.retain(|i| !matches!(i, Item::Alias(..)));
            v.push(("alias-inlined-and-removed".to_string(), no_alias));
            // parentheses: one site at a time
            let mut n = 0;
            let mut probe = base.clone();
            walk_exprs_mut(&mut probe, &mut |_| n += 1);
            for k in 0..n {
                let mut q = base.clone();
                let mut i = 0;
                walk_exprs_mut(&mut q, &mut |e| {
                    if i == k {
                        let inner = e.clone();
                        *e = Expr::Paren(Box::new(inner));
                    }
                    i += 1;
                });
                v.push((format!("paren@{k}"), q));
            }
            v
        };
        for (label, p) in variants {
            for l in ALL_LAYOUTS {
                for (oi, o) in [RenderOpts::default(), RenderOpts { trailing_commas: true, explicit_unit_ret: true, arms_as_blocks: true, paren_args: false }].into_iter().enumerate() {
                    let text = p.render_with(o, l);
                    rep.state();
                    rep.transition(1);
                    rep.eval(1);
                    rep.trace(1);
                    match cmr_of(&text) {
                        Ok(c) if c == base_cmr => rep.class("accepted-equal-cmr"),
                        Ok(_) => rep.violation(format!("C17:{}-changes-program", label.split('@').next().unwrap_or("")), format!("{label} layout {l:?} opts {oi}: different program"), json!({"kind": "compile", "program": text, "expect": "accept", "observed": "different-cmr"})),
                        Err(e) => rep.violation(format!("C17:{}-rejected", label.split('@').next().unwrap_or("")), format!("{label} layout {l:?} opts {oi}: rejected: {e}"), json!({"kind": "compile", "program": text, "expect": "accept", "observed": "reject"})),
                    }
                }
            }
        }
    }
    // (2b) comment alphabet: every comment body at every token boundary at once, and at one boundary at a time
    {
        let toks = Tokens::program(&base, RenderOpts::default()).toks;
        let comments = comment_alphabet();
        rep.set("comment_alphabet", json!(comments));
        let mut variants: Vec<(String, String)> = vec![];
        for c in &comments {
            let sep = if c.starts_with("//") { format!(" {c}") } else { format!(" {c} ") };
            // everywhere (also before the first and after the last token)
            let mut t = sep.clone();
            for (i, tok) in toks.iter().enumerate() {
                if i > 0 {
                    t.push_str(&sep);
                }
                t.push_str(tok);
            }
            t.push_str(&sep);
            variants.push((format!("comment {c:?} at every boundary"), t));
            // glued to the neighbouring tokens, one boundary at a time (block comments need no blank around them)
            let glue = if c.starts_with("//") { c.clone() } else { c.clone() };
            let step = if quick { 3 } else { 1 };
            for b in (0..=toks.len()).step_by(step) {
                let mut t = String::new();
                for (i, tok) in toks.iter().enumerate() {
                    if i == b {
                        t.push_str(&glue);
                    } else if i > 0 {
                        t.push(' ');
                    }
                    t.push_str(tok);
                }
                if b == toks.len() {
                    t.push_str(&glue);
                }
                variants.push((format!("comment {c:?} glued in at boundary {b}"), t));
            }
        }
        par_for(&variants, rep, 64, |_, (label, text)| {
            rep.state();
            rep.transition(1);
            rep.eval(1);
            rep.trace(1);
            rep.nontrivial(1);
            match cmr_of(text) {
                Ok(c) if c == base_cmr => rep.class("accepted-equal-cmr"),
                Ok(_) => rep.violation("C17:comment-changes-program", format!("{label}: different program"), json!({"kind": "compile", "program": text, "expect": "accept", "observed": "different-cmr"})),
                Err(e) => rep.violation("C17:comment-rejected", format!("{label}: rejected: {e}"), json!({"kind": "compile", "program": text, "expect": "accept", "observed": "reject"})),
            }
        });
    }
    // (2c) an alias name declared a second time (the implementation lets the later declaration take over from
    // there on; the book is silent): giving the second alias a fresh name instead, or replacing both aliases by their
    // definitions, must give the same program
    {
        // {A} first alias, {B} second alias; uses of {A} come before the second declaration, uses of {B} after it
        let templates = [
            "type {A} = u8;\nfn f(x: {A}) -> {A} {\n    x\n}\ntype {B} = u16;\nfn main() {\n    let y: {B} = 300;\n    assert!(jet::eq_16(y, 300));\n    assert!(jet::eq_8(f(1), 1));\n}\n",
            "type {A} = u8;\nfn f(p: ({A}, {A})) -> {A} {\n    let (a, b): ({A}, {A}) = p;\n    a\n}\ntype {B} = u16;\nfn g(p: ({B}, {B})) -> {B} {\n    let (a, b): ({B}, {B}) = p;\n    b\n}\nfn main() {\n    assert!(jet::eq_8(f((1, 2)), 1));\n    assert!(jet::eq_16(g((1, 300)), 300));\n}\n",
            "type {A} = u8;\ntype Outer = ({A}, bool);\ntype {B} = u16;\nfn main() {\n    let o: Outer = (255, true);\n    let w: {B} = 65535;\n    let p: ({B}, bool) = (w, false);\n    let (n, c): ({B}, bool) = p;\n    assert!(jet::eq_16(n, 65535));\n}\n",
            "type {A} = Option<u8>;\nfn f(x: {A}) -> u8 {\n    match x {\n        None => 0,\n        Some(v: u8) => v,\n    }\n}\ntype {B} = Either<u8, u16>;\nfn main() {\n    let e: {B} = Right(300);\n    let r: u16 = match e {\n        Left(a: u8) => 0,\n        Right(b: u16) => b,\n    };\n    assert!(jet::eq_16(r, 300));\n    assert!(jet::eq_8(f(Some(7)), 7));\n}\n",
        ];
        let defs = [("u8", "u16"), ("u8", "u16"), ("u8", "u16"), ("Option<u8>", "Either<u8, u16>")];
        let names = ["Word", "Fee", "u8_x", "T", "Pair1"];
        let mut variants: Vec<(String, String, String)> = vec![];
        for (ti, t) in templates.iter().enumerate() {
            let inlined: String = t
                .lines()
                .filter(|l| !(l.starts_with("type {A}") || l.starts_with("type {B}")))
                .map(|l| format!("{}\n", l.replace("{A}", defs[ti].0).replace("{B}", defs[ti].1)))
                .collect();
            for n in names {
                let fresh = t.replace("{A}", n).replace("{B}", &format!("{n}_second"));
                let reused = t.replace("{A}", n).replace("{B}", n);
                variants.push((format!("template {ti} alias {n}: fresh second name vs definitions inlined"), fresh.clone(), inlined.clone()));
                variants.push((format!("template {ti} alias {n}: name declared twice vs fresh second name"), reused, fresh));
            }
        }
        rep.set("alias_redeclaration_cases", json!(variants.len()));
        for (label, a, b) in &variants {
            rep.state();
            rep.transition(1);
            rep.eval(2);
            rep.trace(2);
            rep.nontrivial(1);
            match (cmr_of(a), cmr_of(b)) {
                (Ok(x), Ok(y)) if x == y => rep.class("accepted-equal-cmr"),
                (Ok(_), Ok(_)) => rep.violation("C17:alias-name-changes-program", format!("{label}: the two variants compile to different programs"), json!({"kind": "compile", "program": a, "other": b, "expect": "accept", "observed": "different-cmr"})),
                (Err(e), Ok(_)) => rep.violation("C17:alias-name-changes-acceptance", format!("{label}: first variant rejected ({e}), second accepted"), json!({"kind": "compile", "program": a, "other": b, "expect": "accept", "observed": "reject"})),
                (Ok(_), Err(e)) => rep.violation("C17:alias-name-changes-acceptance", format!("{label}: first variant accepted, second rejected ({e})"), json!({"kind": "compile", "program": b, "other": a, "expect": "accept", "observed": "reject"})),
                (Err(e1), Err(_)) => rep.machinery(format!("alias re-declaration template rejected in both variants: {e1}\n{a}")),
            }
        }
    }
    // (2e) one name used in two unrelated scopes: parameters of a function named like the caller's variables (one of
    // which the caller re-binds), two functions sharing parameter names, an arm binder named like a parameter.  Every
    // injective choice of names per scope must give the program of the all-distinct choice
    {
        // placeholders {P} {Q} (scope 1), {R} {S} (scope 2), caller names fixed
        let templates: [(&str, usize); 4] = [
            ("fn same({P}: u8, {Q}: u8) -> bool {\n    jet::eq_8({P}, {Q})\n}\nfn main() {\n    let a: u8 = 1;\n    let b: u8 = 2;\n    let a: u8 = 2;\n    assert!(same(a, b));\n}\n", 1),
            ("fn first({P}: u8, {Q}: u16) -> u8 {\n    {P}\n}\nfn second({R}: u8, {S}: u16) -> u16 {\n    {S}\n}\nfn main() {\n    let a: u8 = 7;\n    let b: u16 = 300;\n    let b: u16 = 301;\n    assert!(jet::eq_8(first(a, b), 7));\n    assert!(jet::eq_16(second(a, b), 301));\n}\n", 2),
            ("fn pick({P}: Either<u8, u8>, {Q}: u8) -> u8 {\n    match {P} {\n        Left({R}: u8) => {R},\n        Right({S}: u8) => {Q},\n    }\n}\nfn main() {\n    let a: Either<u8, u8> = Left(5);\n    let b: u8 = 9;\n    let b: u8 = 6;\n    assert!(jet::eq_8(pick(a, b), 5));\n    assert!(jet::eq_8(pick(Right(1), b), 6));\n}\n", 3),
            ("fn add3({P}: u8, {Q}: u8, {R}: bool) -> (bool, u8) {\n    jet::full_add_8({R}, {P}, {Q})\n}\nfn main() {\n    let c: bool = false;\n    let a: u8 = 1;\n    let b: u8 = 1;\n    let b: u8 = 100;\n    let (carry, sum): (bool, u8) = add3(a, b, c);\n    assert!(jet::eq_8(sum, 101));\n}\n", 4),
        ];
        let pool = ["p", "q", "a", "b", "c"];
        let mut n_cases = 0u64;
        for (t, kind) in templates {
            let base = t.replace("{P}", "p1").replace("{Q}", "q1").replace("{R}", "r1").replace("{S}", "s1");
            let base_cmr = cmr_of(&base);
            if let Err(e) = &base_cmr {
                rep.machinery(format!("cross-scope template rejected with all-distinct names: {e}\n{base}"));
                continue;
            }
            for p in pool {
                for q in pool {
                    for r in pool {
                        for s in pool {
                            // injective per scope; templates 3 and 4 have one scope for the parameters (and, for 3, arm binders that may shadow them only if different from what the arm reads)
                            let ok = match kind {
                                1 => p != q && r == "p" && s == "p",
                                2 => p != q && r != s,
                                3 => p != q && r != q && s != q,
                                _ => p != q && q != r && p != r && s == "p",
                            };
                            if !ok {
                                continue;
                            }
                            let v = t.replace("{P}", p).replace("{Q}", q).replace("{R}", r).replace("{S}", s);
                            n_cases += 1;
                            rep.state();
                            rep.transition(1);
                            rep.eval(1);
                            rep.trace(1);
                            rep.nontrivial(1);
                            match cmr_of(&v) {
                                Ok(c) if Ok(&c) == base_cmr.as_ref() => rep.class("accepted-equal-cmr"),
                                Ok(_) => rep.violation("C17:cross-scope-name-changes-program", format!("names ({p}, {q}, {r}, {s}): the program differs from the one with all-distinct names"), json!({"kind": "compile", "program": v, "other": base, "expect": "accept", "observed": "different-cmr"})),
                                Err(e) => rep.violation("C17:cross-scope-name-changes-acceptance", format!("names ({p}, {q}, {r}, {s}): rejected ({e}), accepted with all-distinct names"), json!({"kind": "compile", "program": v, "other": base, "expect": "accept", "observed": "reject"})),
                            }
                        }
                    }
                }
            }
        }
        rep.set("cross_scope_name_cases", json!(n_cases));
    }
    // (2d) a long history of names in one process: several thousand renamings with identifiers never seen before, all
    // five roles at once, one after the other on this thread; every one must compile to the baseline's CMR, and the
    // baseline itself must still do so afterwards (tables of names that grow, wrap or are cleared)
    {
        let n = if quick { 2500 } else { 20000 };
        rep.set("fresh_name_history", json!(n));
        let mut bad = 0;
        for k in 0..n {
            let mut p = baseline();
            for (ri, role) in ROLES.iter().enumerate() {
                // alias names must start with an upper-case letter? no such rule: any identifier; keep them distinct per role
                let id = format!("{}{}_{k:05}", ["va", "fn_", "Al", "Wi", "Pa"][ri % 5], ri);
                p = rename(&p, placeholder(role), &id);
            }
            let text = plain_names(&p).render();
            rep.state();
            rep.transition(1);
            rep.eval(1);
            rep.trace(1);
            match cmr_of(&text) {
                Ok(c) if c == base_cmr => rep.class("accepted-equal-cmr"),
                other => {
                    bad += 1;
                    if bad <= 3 {
                        rep.violation("C17:renaming-depends-on-names-seen-before", format!("renaming number {k} with identifiers never used before in this process: {}", match other { Ok(_) => "different program".to_string(), Err(e) => format!("rejected: {e}") }), json!({"kind": "compile", "program": text, "expect": "accept", "observed": "differs-after-history", "note": "needs the history: this is renaming number k of a run of fresh names in one process"}));
                    }
                }
            }
        }
        match cmr_of(&base_text) {
            Ok(c) if c == base_cmr => {}
            other => rep.violation("C17:baseline-changes-after-many-names", format!("after {n} renamings with fresh names the baseline itself gives {:?}", other.map(|_| "another CMR")), json!({"kind": "compile", "program": base_text, "expect": "accept", "observed": "differs-after-history"})),
        }
    }
    // (3) parse trees equal after renaming back is implied by equal CMR; additionally the renamed program must parse
    let _ = simfony::parse::Program::parse_from_str(&base_text);
    rep.finish(
        "state = (role(s), identifier(s), layout); non-trivial = identifiers that have a reserved word as a proper prefix",
        &["equivalence = equal CMR with the plain-named baseline (names are erased by compilation)", "renamings that capture another name of the baseline (per R1) are skipped"],
        true,
    )
}
