//! C07 — types, values and casts follow the documented structural layout.  Oracle: R3.

use crate::drive::{self, RunOutcome};
use crate::explore::par_for;
use crate::gen;
use crate::lang::*;
use crate::props::common::*;
use crate::refmodel::{self, cast_val, encode, layout, same_layout};
use crate::report::Report;
use serde_json::json;
use simfony::types::StructuralType;
use simfony::value::StructuralValue;
use std::collections::{BTreeSet, HashMap};

pub fn base() -> Vec<Ty> {
    let mut v = vec![Ty::unit(), Ty::Bool];
    for n in [1u16, 2, 4, 8, 16, 32, 64, 128, 256] {
        v.push(Ty::U(n));
    }
    v
}

pub const ARRAY_SIZES: [usize; 30] = [0, 1, 2, 3, 4, 5, 6, 7, 8, 9, 10, 11, 12, 13, 14, 15, 16, 17, 31, 32, 33, 63, 64, 65, 127, 128, 129, 255, 256, 257];
pub const LIST_BOUNDS: [usize; 9] = [2, 4, 8, 16, 32, 64, 128, 256, 512];

fn depth1(b: &[Ty], small: &[Ty]) -> Vec<Ty> {
    let mut out = vec![];
    for t in b {
        out.push(Ty::opt(t.clone()));
        for u in b {
            out.push(Ty::either(t.clone(), u.clone()));
        }
        for n in ARRAY_SIZES {
            out.push(Ty::arr(t.clone(), n));
        }
        for n in LIST_BOUNDS {
            out.push(Ty::list(t.clone(), n));
        }
    }
    for a in small {
        out.push(Ty::tup(vec![a.clone()]));
        for b2 in small {
            out.push(Ty::tup(vec![a.clone(), b2.clone()]));
            for c in small {
                out.push(Ty::tup(vec![a.clone(), b2.clone(), c.clone()]));
            }
        }
    }
    // longer tuples with a cyclic component pattern (distinct neighbours so that a wrong split shows)
    for n in 4..=12 {
        out.push(Ty::tup((0..n).map(|i| small[i % small.len()].clone()).collect()));
        out.push(Ty::tup((0..n).map(|i| b[(i * 3 + 1) % b.len()].clone()).collect()));
    }
    out
}

/// Sizes far above anything a hand-written test uses: list bounds up to 2^16, arrays up to 4097 elements (types only).
pub fn large_types() -> Vec<Ty> {
    let mut v = vec![];
    for b in [1024usize, 2048, 4096, 65536] {
        v.push(Ty::list(Ty::U(8), b));
        v.push(Ty::list(Ty::unit(), b));
        v.push(Ty::list(Ty::tup(vec![Ty::Bool, Ty::U(16)]), b));
    }
    for n in [100usize, 255, 300, 511, 1000, 1023, 1025, 4097] {
        v.push(Ty::arr(Ty::U(8), n));
        v.push(Ty::arr(Ty::Bool, n));
    }
    for n in [33usize, 64, 65, 100] {
        v.push(Ty::tup((0..n).map(|i| if i % 2 == 0 { Ty::U(8) } else { Ty::U(1) }).collect()));
    }
    v
}

pub fn type_universe(quick: bool) -> Vec<Ty> {
    let b = base();
    let small = vec![Ty::unit(), Ty::Bool, Ty::U(1), Ty::U(8), Ty::U(16)];
    let d1 = depth1(&b, &small);
    let mut all: Vec<Ty> = b.clone();
    all.extend(d1.iter().cloned());
    // depth 2: constructors over a reduced set
    let stride = if quick { 19 } else { 5 };
    let mut r1: Vec<Ty> = vec![Ty::Bool, Ty::U(1), Ty::U(8), Ty::U(256), Ty::unit()];
    r1.extend(d1.iter().step_by(stride).cloned());
    let r_small: Vec<Ty> = r1.iter().take(if quick { 10 } else { 16 }).cloned().collect();
    for t in &r1 {
        all.push(Ty::opt(t.clone()));
        for n in ARRAY_SIZES {
            if n <= 17 || !quick {
                all.push(Ty::arr(t.clone(), n));
            }
        }
        for n in LIST_BOUNDS {
            if n <= 32 || !quick {
                all.push(Ty::list(t.clone(), n));
            }
        }
        for u in &r1 {
            all.push(Ty::either(t.clone(), u.clone()));
            all.push(Ty::tup(vec![t.clone(), u.clone()]));
        }
    }
    for a in &r_small {
        for b2 in &r_small {
            for c in &r_small {
                all.push(Ty::tup(vec![a.clone(), b2.clone(), c.clone()]));
            }
        }
    }
    if !quick {
        // depth 3 over a small base
        let r2: Vec<Ty> = all.iter().skip(11).step_by(97).take(60).cloned().collect();
        for t in &r2 {
            all.push(Ty::opt(t.clone()));
            all.push(Ty::arr(t.clone(), 3));
            all.push(Ty::arr(t.clone(), 5));
            all.push(Ty::list(t.clone(), 4));
            for u in r2.iter().take(12) {
                all.push(Ty::either(t.clone(), u.clone()));
                all.push(Ty::tup(vec![u.clone(), t.clone(), u.clone()]));
            }
        }
    }
    all.extend(large_types());
    let mut seen = BTreeSet::new();
    all.retain(|t| seen.insert(t.clone()));
    all
}

fn nontrivial_type(t: &Ty) -> bool {
    match t {
        Ty::Tuple(v) => (v.len() >= 5 && !v.len().is_power_of_two()) || v.iter().any(nontrivial_type),
        Ty::Array(e, n) => (*n >= 5 && !n.is_power_of_two()) || nontrivial_type(e),
        Ty::List(e, n) => *n >= 8 || nontrivial_type(e),
        Ty::Option(e) => nontrivial_type(e),
        Ty::Either(a, b) => nontrivial_type(a) || nontrivial_type(b),
        _ => false,
    }
}

pub fn run(rep: &Report) -> i32 {
    let quick = rep.is_quick();
    let types = type_universe(quick);
    rep.set("bounds", json!({"types": types.len(), "array_sizes": ARRAY_SIZES, "list_bounds": LIST_BOUNDS, "depth": if quick {2} else {3}}));
    // (a) type layouts
    par_for(&types, rep, 64, |_, ty| {
        rep.state();
        rep.transition(1);
        rep.eval(1);
        let mut memo = HashMap::new();
        let expect = drive::final_of(layout(ty), &mut memo).tmr();
        let got = drive::guard(|| StructuralType::from(&drive::sim_ty(ty)).as_ref().tmr());
        rep.trace(1);
        if nontrivial_type(ty) {
            rep.nontrivial(1);
        }
        match got {
            Ok(g) if g == expect => rep.class("type-layout-ok"),
            Ok(_) => {
                rep.class("type-layout-mismatch");
                rep.violation("C07:type-layout", format!("layout of {} differs from the documented layout", ty.render()), json!({"kind": "layout_type", "ty": ty.render()}));
            }
            Err(p) => {
                rep.violation(format!("C07:type-layout-panic:{}", drive::panic_site(&p)), format!("StructuralType::from({}) panicked: {p}", ty.render()), json!({"kind": "layout_type", "ty": ty.render()}));
            }
        }
    });
    rep.sample(1, || json!({"part": "a", "type": types[types.len() / 2].render()}));
    // (b) values
    let vtypes: Vec<Ty> = {
        // (the large types are checked as types only: their value sets would need gigabytes)
        let large: BTreeSet<Ty> = large_types().into_iter().collect();
        let mut v: Vec<Ty> = types.iter().filter(|t| gen::count_vals(t) > 0 && !large.contains(*t)).cloned().collect();
        let stride = if quick { 9 } else { 2 };
        let mut keep: Vec<Ty> = v.iter().step_by(stride).cloned().collect();
        // lists at every length for bounds <= 64 (thorough 512), arrays at every size 0..17
        let maxb = if quick { 64 } else { 512 };
        for b in LIST_BOUNDS {
            if b <= maxb {
                keep.push(Ty::list(Ty::U(8), b));
                keep.push(Ty::list(Ty::tup(vec![Ty::U(1), Ty::U(8)]), b));
            }
        }
        for n in 0..=17 {
            keep.push(Ty::arr(Ty::U(8), n));
            keep.push(Ty::arr(Ty::opt(Ty::U(2)), n));
        }
        v = keep;
        let mut seen = BTreeSet::new();
        v.retain(|t| seen.insert(t.clone()));
        v
    };
    par_for(&vtypes, rep, 8, |i, ty| {
        let mut values = match drive::guard(|| gen::vals(ty, if quick { 48 } else { 400 })) { Ok(v) => v, Err(p) => { rep.machinery(format!("vals({}) panicked: {p}", ty.render())); return; } };
        if let Ty::List(el, b) = ty {
            let every = (**el == Ty::U(8) || matches!(**el, Ty::Tuple(_))) && *b <= 512;
            if every {
                for len in 0..*b {
                    values.push(Val::List((0..len).map(|k| gen::nth_val(el, k)).collect()));
                }
            }
        }
        let sty = drive::sim_ty(ty);
        for v in &values {
            rep.transition(1);
            rep.eval(1);
            let expect = encode(v, ty);
            let r = drive::guard(|| {
                let sv = drive::sim_val(v, ty);
                let st = StructuralValue::from(&sv);
                let matches = drive::bv_matches(&expect, st.as_ref().as_ref());
                let back = simfony::Value::reconstruct(&st, &sty);
                let round = back.as_ref() == Some(&sv);
                let tyok = st.is_of_type(&StructuralType::from(&sty));
                (matches, round, tyok)
            });
            rep.trace(1);
            match r {
                Ok((true, true, true)) => rep.class("value-layout-ok"),
                Ok((m, r2, t)) => {
                    rep.class("value-layout-mismatch");
                    let which = if !m { "structure" } else if !r2 { "reconstruct" } else { "is_of_type" };
                    rep.violation(
                        format!("C07:value-{which}"),
                        format!("value {} : {} ({which}: structure ok={m}, reconstruct ok={r2}, typed ok={t})", render_expr(&refmodel::val_expr(v, ty)), ty.render()),
                        json!({"kind": "layout_value", "ty": ty.render(), "val": render_expr(&refmodel::val_expr(v, ty))}),
                    );
                }
                Err(p) => rep.violation(format!("C07:value-panic:{}", drive::panic_site(&p)), format!("value conversion panicked for {} : {}: {p}", render_expr(&refmodel::val_expr(v, ty)), ty.render()), json!({"kind": "layout_value", "ty": ty.render(), "val": render_expr(&refmodel::val_expr(v, ty))})),
            }
        }
        if i == 3 || rep.no_sample_yet() {
            rep.sample(3, || json!({"part": "b", "type": ty.render(), "values": values.len(), "first": values.first().map(|v| render_expr(&refmodel::val_expr(v, ty)))}));
        }
    });
    // (c) casts: all ordered pairs of a type set containing every row of the book's cast table
    let cast_types = cast_universe(quick);
    rep.set("cast_types", json!(cast_types.len()));
    let pairs: Vec<(usize, usize)> = (0..cast_types.len()).flat_map(|i| (0..cast_types.len()).map(move |j| (i, j))).collect();
    par_for(&pairs, rep, 64, |_, &(i, j)| {
        let (s, t) = (&cast_types[i], &cast_types[j]);
        drive::DUMMY.with(|env| check_cast(rep, s, t, env));
    });
    rep.finish(
        "states = types (a) + cast pairs (c); transitions include one per value (b) and per cast run; non-trivial = types with a non-power-of-two tuple/array size >= 5 or a list bound >= 8, and accepted casts between different types",
        &["simplicity-lang type/value primitives (Final::{unit,sum,product}, tmr, Value accessors) are trusted", "R3 is written from book/src/type_casting.md and C07's statement"],
        true,
    )
}

pub fn cast_universe(quick: bool) -> Vec<Ty> {
    let u = Ty::U;
    let mut v = vec![
        Ty::unit(), Ty::Bool, u(1), u(2), u(4), u(8), u(16), u(32),
        Ty::either(Ty::unit(), Ty::unit()), Ty::opt(Ty::unit()),
        Ty::opt(u(8)), Ty::either(Ty::unit(), u(8)), Ty::list(u(8), 2),
        Ty::tup(vec![u(1), u(1)]), Ty::tup(vec![u(2), u(2)]), Ty::tup(vec![u(4), u(4)]), Ty::tup(vec![u(8), u(8)]), Ty::tup(vec![u(16), u(16)]),
        Ty::tup(vec![u(8)]), Ty::arr(u(8), 1), Ty::arr(u(8), 2), Ty::arr(u(8), 0), Ty::arr(u(1), 2), Ty::arr(Ty::Bool, 2),
        Ty::tup(vec![u(8), u(8), u(8)]), Ty::tup(vec![u(8), Ty::tup(vec![u(8), u(8)])]), Ty::tup(vec![Ty::tup(vec![u(8), u(8)]), u(8)]), Ty::arr(u(8), 3),
        Ty::tup(vec![u(8), u(8), u(8), u(8)]), Ty::tup(vec![u(16), u(16)]), Ty::arr(u(8), 4), Ty::arr(u(16), 2), Ty::tup(vec![Ty::arr(u(8), 2), Ty::arr(u(8), 2)]),
        Ty::list(u(8), 4), Ty::tup(vec![Ty::opt(Ty::arr(u(8), 2)), Ty::list(u(8), 2)]), Ty::tup(vec![Ty::opt(u(16)), Ty::opt(u(8))]),
        Ty::list(u(1), 8), Ty::tup(vec![Ty::opt(Ty::arr(u(1), 4)), Ty::list(u(1), 4)]), Ty::tup(vec![Ty::opt(u(4)), Ty::tup(vec![Ty::opt(u(2)), Ty::opt(u(1))])]),
        Ty::arr(u(1), 5), Ty::tup(vec![u(1), u(4)]), Ty::tup(vec![u(1), u(1), u(1), u(1), u(1)]), Ty::arr(u(1), 8), Ty::arr(u(2), 4), Ty::arr(u(4), 2),
        Ty::either(u(8), u(8)), Ty::either(u(8), Ty::tup(vec![u(4), u(4)])), Ty::tup(vec![Ty::Bool, u(8)]), Ty::tup(vec![u(1), u(8)]), Ty::opt(Ty::Bool), Ty::opt(u(1)), Ty::list(Ty::Bool, 2),
        Ty::tup(vec![Ty::unit(), u(8)]), Ty::tup(vec![u(8), Ty::unit()]), Ty::arr(Ty::unit(), 3),
        // degenerate sizes: every zero-length array has the layout of (), whatever its element type
        Ty::arr(u(16), 0), Ty::arr(Ty::Bool, 0), Ty::arr(Ty::arr(u(32), 0), 3), Ty::arr(Ty::arr(Ty::Bool, 0), 3), Ty::list(Ty::arr(u(64), 0), 4), Ty::list(Ty::arr(u(8), 0), 4), Ty::tup(vec![u(8), Ty::arr(u(16), 0)]), Ty::arr(Ty::unit(), 0), Ty::tup(vec![Ty::unit(), Ty::unit()]),
    ];
    if !quick {
        for n in [5usize, 6, 7, 9] {
            v.push(Ty::arr(u(1), n));
            v.push(Ty::tup((0..n).map(|_| Ty::Bool).collect()));
        }
        v.push(u(64));
        v.push(Ty::tup(vec![u(32), u(32)]));
        v.push(Ty::arr(u(8), 8));
        v.push(Ty::list(u(8), 8));
        v.push(Ty::tup(vec![Ty::opt(Ty::arr(u(8), 4)), Ty::list(u(8), 4)]));
        v.push(Ty::list(u(2), 16));
        v.push(Ty::tup(vec![Ty::opt(Ty::arr(u(2), 8)), Ty::list(u(2), 8)]));
    }
    let mut seen = BTreeSet::new();
    v.retain(|t| seen.insert(t.clone()));
    v
}

fn check_cast(rep: &Report, s: &Ty, t: &Ty, env: &drive::Env) {
    rep.state();
    rep.transition(1);
    let mut h = gen::Helpers::default();
    let mut stmts = gen::anchored_witness(&mut h, "a", "A", s);
    stmts.push(let_(Pat::id("x"), t.clone(), cast(s.clone(), var("a"))));
    stmts.push(Stmt::Expr(assert_(h.eq_call(t, var("x"), Expr::Witness("EXPECT".into())))));
    let mut items: Vec<Item> = h.fns.into_iter().map(Item::Fn).collect();
    items.push(Item::Fn(FnDef { name: "main".into(), params: vec![], ret: None, body: (stmts, None) }));
    let prog = Program { items };
    let text = prog.render();
    let should_accept = same_layout(s, t);
    rep.eval(1);
    rep.trace(1);
    let built = drive::build(&text, simfony::Arguments::default(), false);
    let replay = |expect: &str, observed: &str| json!({"kind": "compile", "program": text, "expect": expect, "observed": observed});
    match (&built, should_accept) {
        (Ok(_), true) => rep.class("cast-accepted"),
        (Err(drive::CompileOutcome::Rejected(_)), false) => {
            rep.class("cast-rejected");
            return;
        }
        (Ok(_), false) => {
            rep.violation("C07:cast-accepted-different-layout", format!("cast <{}>::into at type {} accepted although layouts differ", s.render(), t.render()), replay("reject", "accept"));
            return;
        }
        (Err(e), true) => {
            rep.violation("C07:cast-rejected-equal-layout", format!("cast <{}>::into at type {} rejected although layouts are equal: {:?}", s.render(), t.render(), e), replay("accept", "reject"));
            return;
        }
        (Err(e), false) => {
            rep.violation("C07:cast-compile-failure", format!("cast <{}>::into at {}: {:?}", s.render(), t.render(), e), replay("reject", "other"));
            return;
        }
    }
    let built = built.ok().unwrap();
    if s != t {
        rep.nontrivial(1);
    }
    let values = gen::vals(s, if rep.is_quick() { 24 } else { 256 });
    for (k, v) in values.iter().enumerate() {
        rep.transition(1);
        let Some(expect) = cast_val(v, s, t) else {
            rep.machinery(format!("R3 cannot cast {} -> {}", s.render(), t.render()));
            return;
        };
        let mut cases = vec![(expect.clone(), true)];
        if k < 2 {
            for o in other_vals(t, &expect, 1) {
                cases.push((o, false));
            }
        }
        for (ev, should) in cases {
            let w = vec![("A".to_string(), v.clone(), s.clone()), ("EXPECT".to_string(), ev.clone(), t.clone())];
            rep.eval(1);
            rep.trace(1);
            let out = drive::run(&built, drive::witness_map(&w), env);
            let ok = matches!((&out, should), (RunOutcome::Success, true) | (RunOutcome::Failure(_), false));
            rep.class(if ok { "cast-run-ok" } else { "cast-run-mismatch" });
            if !ok {
                rep.violation(
                    format!("C07:cast-value:{}", out.class()),
                    format!("<{}>::into({}) at {}: expected {} with EXPECT={}, got {:?}", s.render(), render_expr(&refmodel::val_expr(v, s)), t.render(), if should { "success" } else { "failure" }, render_expr(&refmodel::val_expr(&ev, t)), out),
                    json!({"kind": "run", "program": text, "args": [], "witness": map_json(&w), "debug": false, "env": "dummy", "expect": if should {"success"} else {"failure"}, "observed": out.class()}),
                );
            }
        }
    }
    if s != t {
        rep.sample(6, || json!({"part": "c", "from": s.render(), "to": t.render(), "values": values.len(), "program": text}));
    }
}
