//! C06 — every text entry point is total (placeholder; filled in below).
pub fn run_entry(_entry: &str, _text: &str, _ty: &str) -> String {
    "not implemented".into()
}
