//! C06 — every text entry point is total: Ok or Err, never a panic / abort / stack overflow.
//! Inputs run in isolated worker subprocesses (address-space limit, watchdog), so that an abort is attributed
//! to the input that caused it and the exploration continues.

use crate::drive;
use crate::report::Report;
use crate::tokens::{self, Lexed};
use serde_json::json;
use simfony::parse::ParseFromStr;
use std::io::{BufRead, BufReader, Write};
use std::process::{Child, Command, Stdio};
use std::sync::atomic::{AtomicUsize, Ordering};
use std::sync::mpsc;
use std::time::Duration;

// ---------------------------------------------------------------------------------------------
// entry points

pub const PROGRAM_ENTRIES: [&str; 4] = ["program", "parse-display", "witness-module", "param-module"];
pub const JSON_ENTRIES: [&str; 2] = ["json-witness", "json-args"];

/// Run one entry point on one text; returns a short description of what was returned. Panics propagate.
pub fn run_entry_raw(entry: &str, text: &str, ty: &str) -> String {
    match entry {
        "program" => match simfony::TemplateProgram::new(text) {
            Err(e) => format!("new: Err ({} bytes)", e.len()),
            Ok(t) => {
                let mut args = vec![];
                for (n, pt) in t.parameters().iter() {
                    let hty = drive::from_sim_ty(pt);
                    args.push((n.as_inner().to_string(), crate::refmodel::zero_val(&hty), hty));
                }
                match t.instantiate(drive::argument_map(&args), true) {
                    Err(e) => format!("instantiate: Err ({} bytes)", e.len()),
                    Ok(c) => {
                        let _ = c.commit();
                        match c.satisfy(simfony::WitnessValues::default()) {
                            Err(e) => format!("satisfy: Err ({} bytes)", e.len()),
                            Ok(s) => {
                                let _ = s.redeem().encode_to_vec();
                                "satisfy: Ok".into()
                            }
                        }
                    }
                }
            }
        },
        "parse-display" => match simfony::parse::Program::parse_from_str(text) {
            Err(e) => format!("parse: Err ({} bytes)", e.to_string().len()),
            Ok(p) => format!("parse: Ok, printed {} bytes", p.to_string().len()),
        },
        "witness-module" => match simfony::WitnessValues::parse_from_str(text) {
            Err(e) => format!("Err ({} bytes)", e.to_string().len()),
            Ok(w) => format!("Ok, printed {} bytes", w.to_string().len()),
        },
        "param-module" => match simfony::Arguments::parse_from_str(text) {
            Err(e) => format!("Err ({} bytes)", e.to_string().len()),
            Ok(w) => format!("Ok, printed {} bytes", w.to_string().len()),
        },
        "json-witness" => match serde_json::from_str::<simfony::WitnessValues>(text) {
            Err(e) => format!("Err ({} bytes)", e.to_string().len()),
            Ok(w) => format!("Ok, printed {} bytes", serde_json::to_string(&w).map(|s| s.len()).unwrap_or(0)),
        },
        "json-args" => match serde_json::from_str::<simfony::Arguments>(text) {
            Err(e) => format!("Err ({} bytes)", e.to_string().len()),
            Ok(w) => format!("Ok, printed {} bytes", serde_json::to_string(&w).map(|s| s.len()).unwrap_or(0)),
        },
        "value" => {
            let Some(hty) = crate::lang::parse_ty(ty).and_then(|t| crate::refmodel::resolve(&t, &Default::default()).ok()) else { return "harness: bad type".into() };
            match simfony::Value::parse_from_str(text, &drive::sim_ty(&hty)) {
                Err(e) => format!("Err ({} bytes)", e.to_string().len()),
                Ok(v) => format!("Ok, printed {} bytes", v.to_string().len()),
            }
        }
        "type" => match simfony::ResolvedType::parse_from_str(text) {
            Err(e) => format!("Err ({} bytes)", e.to_string().len()),
            Ok(t) => format!("Ok, printed {} bytes", t.to_string().len()),
        },
        other => format!("harness: unknown entry {other}"),
    }
}

/// Used by `./check replay` (in-process, guarded).
pub fn run_entry(entry: &str, text: &str, ty: &str) -> String {
    match drive::guard(|| run_entry_raw(entry, text, ty)) {
        Ok(s) => s,
        Err(p) => format!("panic: {p}"),
    }
}

// ---------------------------------------------------------------------------------------------
// input space: jobs -> inputs.  Both parent and worker can expand a job deterministically.

#[derive(Clone, Debug)]
pub struct Input {
    pub entries: Vec<&'static str>,
    pub text: String,
    pub ty: String,
}

struct Space {
    prog_seeds: Vec<(String, String)>,
    prog_lexed: Vec<Lexed>,
    mod_seeds: Vec<(String, String)>,
    mod_lexed: Vec<Lexed>,
    json_seeds: Vec<(String, String)>,
    json_lexed: Vec<Lexed>,
    alpha: Vec<String>,
    alpha_small: Vec<String>,
    value_strings: Vec<String>,
    value_types: Vec<String>,
    type_strings: Vec<String>,
    short_alpha: Vec<char>,
    shorter_alpha: Vec<char>,
    quick: bool,
}

fn nested(open: &str, close: &str, inner: &str, n: usize) -> String {
    format!("{}{}{}", open.repeat(n), inner, close.repeat(n))
}

impl Space {
    fn new(quick: bool) -> Self {
        let mut prog_seeds = tokens::program_seeds(quick);
        // each bracket kind nested exactly 12 deep
        prog_seeds.push(("nest-paren".into(), format!("fn main() {{ let x: u8 = {}; }}", nested("(", ")", "1", 11))));
        prog_seeds.push(("nest-block".into(), format!("fn main() {{ let x: u8 = {}; }}", nested("{", "}", "1", 11))));
        prog_seeds.push(("nest-array-type".into(), format!("fn main() {{ let x: {} = witness::A; }}", nested("[", "; 1]", "u8", 10))));
        prog_seeds.push(("nest-option-type".into(), format!("fn main() {{ let x: {} = None; }}", nested("Option<", ">", "u8", 10))));
        // a program whose every token is preceded, on the same line, by multi-byte characters
        for (n, p) in crate::families::static_family().into_iter().filter(|(n, _)| n.starts_with("P3") || n.starts_with("P1")) {
            prog_seeds.push((format!("{n}-nonascii-comments"), p.render_with(crate::lang::RenderOpts::default(), crate::lang::Layout::NonAsciiComments)));
        }
        prog_seeds.push(("tiny-nonascii".into(), "fn main() { /* ööööö語語🦀 */ let x: u8 = /* öööö */ 255; /* 語語語語 */ assert!(jet::eq_8(x, /* 🦀🦀🦀 */ 255)); }".into()));
        if quick {
            // keep the quick tier small: the kitchen-sink programs, 3 family samples, the 4 smallest examples, the nests
            let mut ex: Vec<(String, String)> = prog_seeds.iter().filter(|s| s.0.ends_with(".simf")).cloned().collect();
            ex.sort_by_key(|e| e.1.len());
            ex.truncate(2);
            prog_seeds.retain(|s| !s.0.ends_with(".simf"));
            let fam: Vec<(String, String)> = prog_seeds.iter().filter(|s| s.0.starts_with("F-A")).take(2).cloned().collect();
            prog_seeds.retain(|s| !s.0.starts_with("P2") && !s.0.starts_with("P4"));
            prog_seeds.retain(|s| !s.0.starts_with("F-A"));
            prog_seeds.extend(fam);
            prog_seeds.extend(ex);
        }
        let mod_seeds = tokens::witness_module_seeds();
        let json_seeds = tokens::json_seeds();
        let value_strings: Vec<String> = {
            let mut v: Vec<String> = vec![
                "", "_", "__", "0x_", "0b_", "0x", "0b", "1_", "_1", "00", "0x0", "0b2", "0xg", "0", "1", "255", "256", "65535", "65536", "0xff", "0xFF", "0x00ff", "0b1", "0b01", "0b00000001", "true", "false", "True", "None", "Some(1)", "Some(None)",
                "Left(1)", "Right(1)", "Left(Left(1))", "()", "(1)", "(1,)", "(1, 2)", "(1, 2,)", "((1, 2), 3)", "[]", "[1]", "[1, 2]", "[1, 2,]", "[[1], [2]]", "list![]", "list![1]", "list![1, 2, 3]", "list![1, 2, 3, 4]", "list![list![]]", "0x0102", "0x01_02",
                "[0x01, 0x02]", "(0x01, 1)", "witness::A", "param::A", "x", "jet::eq_8(1, 1)", "{ 1 }", "match true { true => 1, false => 2, }", "dbg!(1)", "<u8>::into(1)", "unwrap(Some(1))", "1 2", "1)", "(1", "1,", "Some(", "Left(", "é", "嗨", "\u{0}", "1\r\n", "\t1\t", "/* c */ 1", "1 // c",
                "-1", "+1", "1.0", "1e3", "0x", "0X1", "0B1", "/* öööö語 */ 256", "/* 🦀🦀 */ (1, /* öööö */ 256)", "[/* 語語語語語 */ 1, true]", "/* ööööööö */", "00000000000000000000000000000000000000000000000000000000000000000000000000000001",
            ]
            .into_iter()
            .map(|s| s.to_string())
            .collect();
            for n in [20usize, 39, 77, 78, 79, 400] {
                v.push("9".repeat(n));
                v.push(format!("1{}", "0".repeat(n)));
            }
            for n in [1usize, 2, 4, 8, 16, 32, 64, 65, 128, 256] {
                v.push(format!("0x{}", "f".repeat(n)));
                v.push(format!("0b{}", "1".repeat(n)));
            }
            v.push(format!("[{}]", vec!["1"; 300].join(", ")));
            v.push(format!("list![{}]", vec!["1"; 300].join(", ")));
            v.push(nested("(", ",)", "1", 11));
            v.push(nested("Some(", ")", "1", 11));
            v
        };
        let value_types: Vec<String> = {
            let mut t: Vec<String> = ["u1", "u2", "u4", "u8", "u16", "u32", "u64", "u128", "u256", "bool", "()", "(u8,)", "(u8, u8)", "((u8, u8), u8)", "[u8; 0]", "[u8; 1]", "[u8; 2]", "[u8; 32]", "[u1; 2]", "[[u8; 1]; 2]", "List<u8, 2>", "List<u8, 4>", "List<List<u8, 2>, 2>", "Option<u8>", "Option<Option<u8>>", "Either<u8, u8>", "Either<Either<u8, u8>, u8>", "Option<[u8; 2]>", "(u8, [u8; 1])", "Either<(), u1>"]
                .iter()
                .map(|s| s.to_string())
                .collect();
            if !quick {
                for s in ["[u8; 3]", "[u16; 2]", "[u8; 64]", "List<u8, 512>", "List<[u8; 2], 8>", "(u1, u2, u4)", "[(u8, u8); 2]", "Option<()>", "Either<bool, [u8; 0]>", "((), ())", "[(); 3]", "List<(), 2>", "Option<u256>", "(u128, u256)", "[u256; 2]", "Either<u1, u256>", "List<bool, 16>", "[bool; 8]", "(bool, bool, bool, bool, bool)", "Option<List<u8, 2>>", "[Option<u8>; 2]", "List<Option<u1>, 4>", "Either<List<u8, 2>, [u8; 2]>", "(u8, (u8, (u8, (u8, u8))))", "[[[[u8; 1]; 1]; 1]; 1]", "Option<Option<Option<bool>>>", "Either<(u8, u8), (u16,)>", "[u4; 4]", "List<u4, 8>", "(u2, [u2; 2])"] {
                    t.push(s.to_string());
                }
            }
            t
        };
        let type_strings: Vec<String> = {
            let mut v: Vec<String> = vec![
                "", "u8", "u3", "u512", "u0", "u", "bool", "Bool", "()", "(u8)", "(u8,)", "(u8, u8", "u8)", "[u8; 2]", "[u8; ]", "[u8; -1]", "[u8; 2", "[u8 2]", "[; 2]", "[u8; 0x2]", "[u8; 2_0]", "List<u8, 2>", "List<u8, 3>", "List<u8, 1>", "List<u8, 0>", "List<u8>", "List<, 2>", "List<u8, 2",
                "Option<u8>", "Option<>", "Option<u8, u8>", "Either<u8, u8>", "Either<u8>", "Either<u8, u8, u8>", "Ctx8", "Pubkey", "Fee", "Foo", "u8 u8", "u8,", "é", "嗨", "\u{0}", "u8\r\n", " u8 ", "/* c */ u8", "List<u8, 18446744073709551616>", "[u8; 18446744073709551616]", "[u8; 99999999999999999999999999]",
                "List<u8, 9223372036854775808>", "[u8; 4294967296]", "[[u8; 65536]; 65536]", "/* öööö語 */ u3", "(u8, /* 🦀🦀🦀 */ u5)", "[/* ööööööö */ u8; x]",
            ]
            .into_iter()
            .map(|s| s.to_string())
            .collect();
            v.push(nested("Option<", ">", "u8", 12));
            v.push(nested("[", "; 1]", "u8", 12));
            v.push(nested("(", ",)", "u8", 12));
            v.push(nested("Either<u8, ", ">", "u8", 12));
            v
        };
        let short_alpha: Vec<char> = "abfnletu0189_xAL(){}[]<>,;:=-!&|'\"#@*/\\ \n\r\t.é嗨?+%^~`$OSNTRmwpjtc".chars().collect::<std::collections::BTreeSet<char>>().into_iter().collect();
        let shorter_alpha: Vec<char> = "a0_x({[<,;:=! \n>)]}".chars().collect();
        Space {
            prog_lexed: prog_seeds.iter().map(|s| tokens::lex(&s.1)).collect(),
            prog_seeds,
            mod_lexed: mod_seeds.iter().map(|s| tokens::lex(&s.1)).collect(),
            mod_seeds,
            json_lexed: json_seeds.iter().map(|s| tokens::lex(&s.1)).collect(),
            json_seeds,
            alpha: tokens::alphabet(quick, true),
            alpha_small: tokens::alphabet(true, true).into_iter().step_by(3).collect(),
            value_strings,
            value_types,
            type_strings,
            short_alpha,
            shorter_alpha,
            quick,
        }
    }

    /// job descriptors: (kind, a, b)
    fn jobs(&self) -> Vec<(char, usize, usize)> {
        let mut j = vec![];
        for (si, l) in self.prog_lexed.iter().enumerate() {
            for p in 0..=l.toks.len() {
                j.push(('P', si, p));
            }
        }
        for (si, l) in self.mod_lexed.iter().enumerate() {
            for p in 0..=l.toks.len() {
                j.push(('M', si, p));
            }
        }
        for (si, l) in self.json_lexed.iter().enumerate() {
            for p in 0..=l.toks.len() {
                j.push(('J', si, p));
            }
        }
        for i in 0..self.value_strings.len() {
            j.push(('V', i, 0));
        }
        j.push(('T', 0, 0));
        // short strings: chunks by first character
        for c in 0..self.short_alpha.len() {
            j.push(('S', c, 0));
        }
        for c in 0..self.shorter_alpha.len() {
            j.push(('s', c, 0));
        }
        if !self.quick {
            // double edits on the 6 smallest program seeds: first edit position = a, seed = b
            let mut order: Vec<usize> = (0..self.prog_seeds.len()).collect();
            order.sort_by_key(|&i| self.prog_lexed[i].toks.len());
            for &si in order.iter().take(6) {
                for p in 0..self.prog_lexed[si].toks.len() {
                    j.push(('D', si, p));
                }
            }
        }
        j
    }

    fn expand(&self, job: (char, usize, usize), f: &mut dyn FnMut(Input)) {
        let (kind, a, b) = job;
        match kind {
            'P' => tokens::edits_at(&self.prog_lexed[a], b, &self.alpha, &mut |text, _| f(Input { entries: PROGRAM_ENTRIES.to_vec(), text, ty: String::new() })),
            'M' => tokens::edits_at(&self.mod_lexed[a], b, &self.alpha, &mut |text, _| f(Input { entries: vec!["witness-module", "param-module", "program"], text, ty: String::new() })),
            'J' => tokens::edits_at(&self.json_lexed[a], b, &self.alpha, &mut |text, _| f(Input { entries: JSON_ENTRIES.to_vec(), text, ty: String::new() })),
            'V' => {
                for t in &self.value_types {
                    f(Input { entries: vec!["value"], text: self.value_strings[a].clone(), ty: t.clone() });
                }
            }
            'T' => {
                for t in &self.type_strings {
                    f(Input { entries: vec!["type"], text: t.clone(), ty: String::new() });
                }
                for t in &self.value_types {
                    f(Input { entries: vec!["type"], text: t.clone(), ty: String::new() });
                }
            }
            'S' | 's' => {
                let (alpha, maxlen) = if kind == 'S' { (&self.short_alpha, if self.quick { 2 } else { 3 }) } else { (&self.shorter_alpha, if self.quick { 3 } else { 4 }) };
                // all strings of length 1..=maxlen starting with alpha[a]
                let mut stack: Vec<String> = vec![alpha[a].to_string()];
                while let Some(s) = stack.pop() {
                    f(Input { entries: vec!["program", "witness-module", "type"], text: s.clone(), ty: String::new() });
                    f(Input { entries: vec!["value"], text: s.clone(), ty: "(u8, Option<[u8; 1]>)".into() });
                    if s.chars().count() < maxlen {
                        for c in alpha {
                            let mut t = s.clone();
                            t.push(*c);
                            stack.push(t);
                        }
                    }
                }
            }
            'D' => {
                // first edit at position b with the small alphabet, second edit at every later position
                let l = &self.prog_lexed[a];
                tokens::edits_at(l, b, &self.alpha_small, &mut |text1, _| {
                    let l2 = tokens::lex(&text1);
                    let start = b.min(l2.toks.len());
                    for p2 in start..l2.toks.len().min(start + 12) {
                        tokens::edits_at(&l2, p2, &self.alpha_small, &mut |text2, _| f(Input { entries: vec!["program", "parse-display"], text: text2, ty: String::new() }));
                    }
                });
            }
            _ => {}
        }
    }
}

// ---------------------------------------------------------------------------------------------
// worker

pub fn worker(tier: &str) -> i32 {
    let space = Space::new(tier == "quick");
    let stdin = std::io::stdin();
    let stdout = std::io::stdout();
    let mut line = String::new();
    loop {
        line.clear();
        if stdin.lock().read_line(&mut line).unwrap_or(0) == 0 {
            return 0;
        }
        let parts: Vec<&str> = line.split_whitespace().collect();
        if parts.len() < 4 {
            continue;
        }
        let kind = parts[0].chars().next().unwrap();
        let a: usize = parts[1].parse().unwrap_or(0);
        let b: usize = parts[2].parse().unwrap_or(0);
        let from: usize = parts[3].parse().unwrap_or(0);
        let mut k = 0usize;
        let mut ran = 0u64;
        let mut skipped_depth = 0u64;
        let mut past_grammar = 0u64;
        let mut out = stdout.lock();
        space.expand((kind, a, b), &mut |inp: Input| {
            let this = k;
            k += 1;
            if this < from {
                return;
            }
            if tokens::bracket_depth(&inp.text) > 12 {
                skipped_depth += 1;
                return;
            }
            // announce, so that a dying worker identifies its input
            let _ = writeln!(out, "S {this}");
            let _ = out.flush();
            for e in &inp.entries {
                ran += 1;
                match drive::guard(|| run_entry_raw(e, &inp.text, &inp.ty)) {
                    Ok(desc) => {
                        if !desc.starts_with("new: Err") && !desc.starts_with("parse: Err") && !desc.starts_with("Err") {
                            past_grammar += 1;
                        }
                    }
                    Err(p) => {
                        let _ = writeln!(out, "V {}", json!({"entry": e, "text": inp.text, "ty": inp.ty, "panic": p, "site": drive::panic_site(&p)}));
                    }
                }
            }
        });
        let _ = writeln!(out, "D {} {} {} {}", k, ran, skipped_depth, past_grammar);
        let _ = out.flush();
    }
}

// ---------------------------------------------------------------------------------------------
// parent

struct Worker {
    child: Child,
    rx: mpsc::Receiver<String>,
}

fn spawn_worker(tier: &str) -> Option<Worker> {
    let exe = std::env::current_exe().ok()?;
    let mut child = Command::new("sh")
        .arg("-c")
        .arg("ulimit -v 8000000; exec \"$0\" worker c06 \"$1\"")
        .arg(exe)
        .arg(tier)
        .stdin(Stdio::piped())
        .stdout(Stdio::piped())
        .stderr(Stdio::null())
        .spawn()
        .ok()?;
    let stdout = child.stdout.take()?;
    let (tx, rx) = mpsc::channel();
    std::thread::spawn(move || {
        let r = BufReader::new(stdout);
        for l in r.lines() {
            match l {
                Ok(l) => {
                    if tx.send(l).is_err() {
                        break;
                    }
                }
                Err(_) => break,
            }
        }
    });
    Some(Worker { child, rx })
}

fn has_huge_number(text: &str) -> bool {
    let mut run = String::new();
    for c in text.chars().chain(std::iter::once(' ')) {
        if c.is_ascii_digit() {
            run.push(c);
        } else {
            if run.len() >= 7 && run.trim_start_matches('0').len() >= 7 {
                return true;
            }
            run.clear();
        }
    }
    false
}

pub fn run(rep: &Report) -> i32 {
    let quick = rep.is_quick();
    let space = Space::new(quick);
    let jobs = space.jobs();
    rep.set(
        "bounds",
        json!({"program_seeds": space.prog_seeds.iter().map(|s| s.0.clone()).collect::<Vec<_>>(), "module_seeds": space.mod_seeds.len(), "json_seeds": space.json_seeds.len(), "token_alphabet": space.alpha.len(), "value_strings": space.value_strings.len(), "value_types": space.value_types.len(), "type_strings": space.type_strings.len(),
          "short_strings": if quick {"all strings of length <= 2 over 60+ characters and <= 3 over 19"} else {"all strings of length <= 3 over 60+ characters and <= 4 over 19"}, "double_edits": if quick {"none"} else {"6 smallest seeds, second edit within 12 tokens after the first, reduced alphabet"}, "bracket_depth_limit": 12, "watchdog_s": 20, "worker_address_space_kb": 8000000}),
    );
    let next = AtomicUsize::new(0);
    let nworkers = crate::explore::jobs();
    let tier = rep.tier.clone();
    std::thread::scope(|s| {
        for _ in 0..nworkers {
            s.spawn(|| {
                let mut w = match spawn_worker(&tier) {
                    Some(w) => w,
                    None => {
                        rep.machinery("cannot spawn a C06 worker");
                        return;
                    }
                };
                'jobs: loop {
                    if rep.out_of_time() {
                        break;
                    }
                    let ji = next.fetch_add(1, Ordering::Relaxed);
                    if ji >= jobs.len() {
                        break;
                    }
                    let job = jobs[ji];
                    let mut from = 0usize;
                    let mut restarts = 0;
                    loop {
                        // (re)send the job
                        let sent = w.child.stdin.as_mut().map(|i| writeln!(i, "{} {} {} {}", job.0, job.1, job.2, from).and_then(|_| i.flush()).is_ok()).unwrap_or(false);
                        let mut last_started: Option<usize> = None;
                        let mut died = !sent;
                        let mut timed_out = false;
                        while !died {
                            match w.rx.recv_timeout(Duration::from_secs(20)) {
                                Ok(l) => {
                                    if let Some(rest) = l.strip_prefix("S ") {
                                        last_started = rest.trim().parse().ok();
                                    } else if let Some(rest) = l.strip_prefix("V ") {
                                        if let Ok(v) = serde_json::from_str::<serde_json::Value>(rest) {
                                            let entry = v["entry"].as_str().unwrap_or("").to_string();
                                            let site = v["site"].as_str().unwrap_or("").to_string();
                                            rep.class("panic");
                                            // D6 seen as a caught panic instead of an abort: `Vec` refuses a capacity above
                                            // isize::MAX before the allocator is even asked (sizes >= 2^59 or so)
                                            let huge = has_huge_number(v["text"].as_str().unwrap_or("")) && v["panic"].as_str().unwrap_or("").contains("capacity overflow");
                                            rep.violation(
                                                if huge { "C06:panic:huge-size-literal:capacity-overflow".to_string() } else { format!("C06:panic:{entry}:{site}") },
                                                format!("{entry} panicked: {}", v["panic"].as_str().unwrap_or("")),
                                                json!({"kind": "text", "entry": entry, "text": v["text"], "ty": v["ty"], "expect": "", "observed": "panic"}),
                                            );
                                        }
                                    } else if let Some(rest) = l.strip_prefix("D ") {
                                        let n: Vec<u64> = rest.split_whitespace().filter_map(|x| x.parse().ok()).collect();
                                        if n.len() == 4 {
                                            rep.states_n(n[0].saturating_sub(from as u64));
                                            rep.transition(n[0].saturating_sub(from as u64));
                                            rep.eval(n[1]);
                                            rep.trace(n[1]);
                                            rep.class_n("skipped(bracket depth > 12)", n[2]);
                                            rep.nontrivial(n[3]);
                                        }
                                        continue 'jobs;
                                    }
                                }
                                Err(mpsc::RecvTimeoutError::Timeout) => {
                                    timed_out = true;
                                    died = true;
                                }
                                Err(mpsc::RecvTimeoutError::Disconnected) => died = true,
                            }
                        }
                        // the worker died (abort / stack overflow / kill on timeout) while running input `last_started`
                        let _ = w.child.kill();
                        let status = w.child.wait().ok();
                        let k = last_started.unwrap_or(from);
                        // regenerate the input text
                        let mut culprit: Option<Input> = None;
                        let mut idx = 0usize;
                        space.expand(job, &mut |inp| {
                            if idx == k {
                                culprit = Some(inp);
                            }
                            idx += 1;
                        });
                        if let Some(inp) = culprit {
                            if timed_out {
                                rep.class("timeout(inconclusive)");
                                rep.cap("per-input watchdog (20 s) hit on at least one input; those inputs are inconclusive, not violations");
                            } else {
                                rep.class("worker-died");
                                let feature = if has_huge_number(&inp.text) { "huge-size-literal" } else { "other" };
                                let sig_exit = status.map(|s| format!("{s}")).unwrap_or_default();
                                rep.violation(
                                    format!("C06:abort:{feature}"),
                                    format!("worker process died ({sig_exit}) while running {:?} on a text of {} bytes: {:?}", inp.entries, inp.text.len(), inp.text.chars().take(120).collect::<String>()),
                                    json!({"kind": "text-abort", "entries": inp.entries, "text": inp.text, "ty": inp.ty, "note": "run `simfony-mc worker c06` style isolation to reproduce: the entry point aborts the process"}),
                                );
                            }
                        }
                        from = k + 1;
                        restarts += 1;
                        match spawn_worker(&tier) {
                            Some(nw) => w = nw,
                            None => {
                                rep.machinery("cannot respawn a C06 worker");
                                return;
                            }
                        }
                        if restarts > 200 {
                            rep.cap("more than 200 worker restarts in one job");
                            continue 'jobs;
                        }
                    }
                }
                let _ = w.child.kill();
                let _ = w.child.wait();
            });
        }
    });
    // structural near misses (one AST edit at every site of the small static programs) through the program entry
    // point, in process: a panic is caught and reported; these texts contain no huge size literal
    {
        let bases: Vec<(String, crate::lang::Program)> = crate::families::static_family().into_iter().filter(|(n, _)| !crate::families::is_large(n)).collect();
        rep.set("structural_near_miss_bases", json!(bases.iter().map(|b| b.0.clone()).collect::<Vec<_>>()));
        crate::explore::par_for(&bases, rep, 1, |_, (name, base)| {
            for (op, m) in crate::mutate::near_misses(base) {
                if rep.out_of_time() {
                    break;
                }
                let text = m.render();
                rep.state();
                rep.transition(1);
                rep.eval(1);
                rep.trace(1);
                let r = crate::drive::guard(|| {
                    simfony::TemplateProgram::new(text.as_str()).and_then(|t| {
                        let args: Vec<(String, crate::lang::Val, crate::lang::Ty)> = t.parameters().iter().map(|(n, ty)| { let ty = crate::drive::from_sim_ty(ty); (n.as_inner().to_string(), crate::refmodel::zero_val(&ty), ty) }).collect();
                        t.instantiate(crate::drive::argument_map(&args), false).map(|_| ())
                    })
                });
                match r {
                    Ok(Ok(())) => rep.class("near-miss:ok"),
                    Ok(Err(_)) => {
                        rep.class("near-miss:err");
                        rep.nontrivial(1);
                    }
                    Err(p) => {
                        rep.class("panic");
                        rep.violation(format!("C06:panic:program:{}", crate::drive::panic_site(&p)), format!("program panicked: {p} ({op} on {name})"), json!({"kind": "text", "entry": "program", "text": text, "ty": "", "expect": "", "observed": "panic"}));
                    }
                }
            }
        });
    }
    let done = next.load(Ordering::Relaxed).min(jobs.len());
    if done < jobs.len() {
        rep.cap(format!("stopped after {done} of {} jobs", jobs.len()));
    }
    rep.sample(3, || json!({"example_inputs": [space.prog_seeds.first().map(|s| s.1.chars().take(300).collect::<String>()), space.value_strings.get(5).cloned(), space.type_strings.get(20).cloned()]}));
    rep.finish(
        "state = one input text (with its entry points); non-trivial = entry-point runs that got past the grammar (reached analysis / value conversion); inputs with bracket depth > 12 are skipped and counted; time-outs are inconclusive",
        &["inputs run in worker subprocesses under `ulimit -v`; a dead worker is attributed to the input it had announced", "only panics / aborts are violations; resource use is not judged"],
        true,
    )
}
