//! C08 — fold consumes list elements first to last, each exactly once.  Oracle: R2.

use crate::drive;
use crate::explore::par_for;
use crate::gen;
use crate::lang::*;
use crate::props::common::*;
use crate::refmodel::val_expr;
use crate::report::Report;
use serde_json::json;

#[derive(Clone, Debug)]
struct Case {
    n: usize,
    k: usize,
    source: &'static str,
    func: String,
}

fn fn_counter(w: u16) -> FnDef {
    // fn cntW(e: uW, acc: uW) -> uW { assert!(jet::eq_W(e, acc)); let (c, s): (bool, uW) = jet::increment_W(acc); s }
    let t = Ty::U(w);
    FnDef {
        name: format!("cnt{w}"),
        params: vec![("e".into(), t.clone()), ("acc".into(), t.clone())],
        ret: Some(t.clone()),
        body: (
            vec![
                Stmt::Expr(assert_(jet(&format!("eq_{w}"), vec![var("e"), var("acc")]))),
                let_(Pat::Tuple(vec![Pat::id("c"), Pat::id("s")]), Ty::tup(vec![Ty::Bool, t]), jet(&format!("increment_{w}"), vec![var("acc")])),
            ],
            Some(Box::new(var("s"))),
        ),
    }
}

fn fn_hash() -> FnDef {
    // acc * 31 + e in u64 (wrapping)
    FnDef {
        name: "hash".into(),
        params: vec![("e".into(), Ty::U(8)), ("acc".into(), Ty::U(64))],
        ret: Some(Ty::U(64)),
        body: (
            vec![
                let_(Pat::id("m"), Ty::U(128), jet("multiply_64", vec![var("acc"), dec(31)])),
                let_(Pat::Tuple(vec![Pat::id("hi"), Pat::id("lo")]), Ty::tup(vec![Ty::U(64), Ty::U(64)]), cast(Ty::U(128), var("m"))),
                let_(Pat::Tuple(vec![Pat::id("c"), Pat::id("s")]), Ty::tup(vec![Ty::Bool, Ty::U(64)]), jet("add_64", vec![var("lo"), jet("left_pad_low_8_64", vec![var("e")])])),
            ],
            Some(Box::new(var("s"))),
        ),
    }
}

fn fn_panicking(j: usize) -> FnDef {
    // fn chkJ(e: u8, acc: u8) -> u8 { assert!(match jet::eq_8(e, J) { true => false, false => true }); acc }
    FnDef {
        name: format!("chk{j}"),
        params: vec![("e".into(), Ty::U(8)), ("acc".into(), Ty::U(8))],
        ret: Some(Ty::U(8)),
        body: (vec![Stmt::Expr(assert_(match_(jet("eq_8", vec![var("e"), dec(j as u128)]), (MPat::True, boolean(false)), (MPat::False, boolean(true)))))], Some(Box::new(var("acc")))),
    }
}

fn fn_tagged() -> FnDef {
    // element (u1, u8): the tag must be the accumulator's lowest bit and the value the accumulator itself
    FnDef {
        name: "cnt_tag".into(),
        params: vec![("e".into(), Ty::tup(vec![Ty::U(1), Ty::U(8)])), ("acc".into(), Ty::U(8))],
        ret: Some(Ty::U(8)),
        body: (
            vec![
                let_(Pat::Tuple(vec![Pat::id("t"), Pat::id("v")]), Ty::tup(vec![Ty::U(1), Ty::U(8)]), var("e")),
                Stmt::Expr(assert_(jet("eq_8", vec![var("v"), var("acc")]))),
                Stmt::Expr(assert_(jet("eq_1", vec![var("t"), jet("rightmost_8_1", vec![var("acc")])]))),
                let_(Pat::Tuple(vec![Pat::id("c"), Pat::id("s")]), Ty::tup(vec![Ty::Bool, Ty::U(8)]), jet("increment_8", vec![var("acc")])),
            ],
            Some(Box::new(var("s"))),
        ),
    }
}

fn fn_rotate() -> FnDef {
    // pair accumulator rotated with a parallel tuple assignment whose second component reads a name the first re-binds:
    // let (a, b): (u8, u8) = acc;  let (a, b): (u8, u8) = (b, jet::xor_8(a, e));  (a, b)
    let pair = Ty::tup(vec![Ty::U(8), Ty::U(8)]);
    FnDef {
        name: "rotate".into(),
        params: vec![("e".into(), Ty::U(8)), ("acc".into(), pair.clone())],
        ret: Some(pair.clone()),
        body: (
            vec![
                let_(Pat::Tuple(vec![Pat::id("a"), Pat::id("b")]), pair.clone(), var("acc")),
                let_(Pat::Tuple(vec![Pat::id("a"), Pat::id("b")]), pair.clone(), Expr::Tuple(vec![var("b"), jet("xor_8", vec![jet("left_rotate_8", vec![dec(1), var("a")]), var("e")])])),
            ],
            Some(Box::new(Expr::Tuple(vec![var("a"), var("b")]))),
        ),
    }
}

fn fn_opt() -> FnDef {
    FnDef {
        name: "hopt".into(),
        params: vec![("e".into(), Ty::opt(Ty::U(8))), ("acc".into(), Ty::U(8))],
        ret: Some(Ty::U(8)),
        body: (
            vec![let_(Pat::id("v"), Ty::U(8), match_(var("e"), (MPat::None, dec(255)), (MPat::Some("x".into(), Ty::U(8)), var("x"))))],
            Some(Box::new(jet("xor_8", vec![jet("left_rotate_8", vec![dec(1), var("acc")]), var("v")]))),
        ),
    }
}

/// (function, element type, accumulator type, initial value, elements)
fn instance(c: &Case) -> (FnDef, Ty, Ty, Val, Vec<Val>) {
    let k = c.k;
    match c.func.as_str() {
        "counter" => {
            let w = if c.n > 256 { 16 } else { 8 };
            (fn_counter(w), Ty::U(w), Ty::U(w), Val::u(w, 0), (0..k).map(|i| Val::u(w, i as u128)).collect())
        }
        "hash" => (fn_hash(), Ty::U(8), Ty::U(64), Val::u(64, 7), (0..k).map(|i| Val::u(8, ((7 * i + 3) % 251) as u128)).collect()),
        "tagged" => (fn_tagged(), Ty::tup(vec![Ty::U(1), Ty::U(8)]), Ty::U(8), Val::u(8, 0), (0..k).map(|i| Val::Tuple(vec![Val::u(1, (i & 1) as u128), Val::u(8, i as u128)])).collect()),
        "rotate" => (fn_rotate(), Ty::U(8), Ty::tup(vec![Ty::U(8), Ty::U(8)]), Val::Tuple(vec![Val::u(8, 1), Val::u(8, 2)]), (0..k).map(|i| Val::u(8, ((11 * i + 5) % 251) as u128)).collect()),
        "opt" => (fn_opt(), Ty::opt(Ty::U(8)), Ty::U(8), Val::u(8, 0x5a), (0..k).map(|i| if i % 3 == 0 { Val::None } else { Val::Some(Box::new(Val::u(8, i as u128))) }).collect()),
        f if f.starts_with("panic@") => {
            let j: usize = f[6..].parse().unwrap();
            (fn_panicking(j), Ty::U(8), Ty::U(8), Val::u(8, 9), (0..k).map(|i| Val::u(8, i as u128)).collect())
        }
        other => panic!("unknown fold function {other}"),
    }
}

fn cases(quick: bool) -> Vec<Case> {
    let mut out = vec![];
    let bounds: Vec<usize> = if quick { vec![2, 4, 8, 16, 32, 64, 128, 256] } else { vec![2, 4, 8, 16, 32, 64, 128, 256, 512] };
    for &n in &bounds {
        let all_k = if quick { n <= 64 } else { n <= 256 };
        let ks: Vec<usize> = if all_k { (0..n).collect() } else { gen::list_lengths(n) };
        for &k in &ks {
            let sources: Vec<&'static str> = if n <= 64 || !quick { vec!["literal", "witness", "function", "match", "param"] } else { vec!["literal", "witness"] };
            let mut sources = sources;
            // every element its own witness / alternating constants and witnesses (small bounds: k witnesses per program)
            if k >= 1 && (n <= 16 || (!quick && n <= 64)) {
                sources.push("witness-elements");
                sources.push("mixed-elements");
                // every other element computed by an inner fold over its own (one-element) list literal
                sources.push("nested-literal-elements");
            }
            for source in sources {
                let mut funcs: Vec<String> = vec!["counter".into()];
                if source == "witness-elements" || source == "mixed-elements" || source == "nested-literal-elements" {
                    funcs.push("hash".into());
                }
                if n <= 256 && (source == "literal" || source == "witness") {
                    funcs.push("hash".into());
                    funcs.push("rotate".into());
                    if n <= 64 || !quick {
                        funcs.push("tagged".into());
                        funcs.push("opt".into());
                    }
                }
                if n <= 256 && source == "literal" {
                    let mut js = std::collections::BTreeSet::new();
                    for j in [0usize, 1, k.saturating_sub(1), k, n - 1] {
                        js.insert(j.min(255));
                    }
                    let mut p = 2;
                    while p < n {
                        js.insert((p - 1).min(255));
                        js.insert(p.min(255));
                        p *= 2;
                    }
                    let limit = if quick && n > 16 { 5 } else { 64 };
                    for j in js.into_iter().take(limit) {
                        funcs.push(format!("panic@{j}"));
                    }
                }
                for func in funcs {
                    out.push(Case { n, k, source, func });
                }
            }
        }
    }
    out
}

pub fn run(rep: &Report) -> i32 {
    let quick = rep.is_quick();
    let cs = cases(quick);
    rep.set("bounds", json!({"cases": cs.len(), "bounds_N": if quick {"2..256 (all lengths for N<=64, block edges +-1 above)"} else {"2..512 (all lengths for N<=256, block edges +-1 for 512)"}, "sources": ["literal", "witness", "function", "match", "param (param::XS written directly as the operand)", "witness-elements (N<=16 quick, <=64 thorough)", "mixed-elements", "nested-literal-elements"], "fold_functions": ["counter", "hash", "rotate", "tagged", "opt", "panic@j"]}));
    par_for(&cs, rep, 4, |i, c| {
        drive::DUMMY.with(|env| check_case(rep, c, i, env));
    });
    // two fold functions in one program whose bodies have the same text while their parameter lists differ (element
    // and accumulator exchanged; accumulators of different types), both orders: each fold must run its own function.
    // Expected values by hand from the statement (f(e, acc) = e keeps the last element, f(e, acc) = acc keeps init);
    // every program also runs with one expected value changed, which must fail
    {
        let keep_elem = "fn keep_elem(a: u8, b: u8) -> u8 {\n    a\n}\n";
        let keep_acc = "fn keep_acc(b: u8, a: u8) -> u8 {\n    a\n}\n";
        let use_elem = |want: u8| format!("    let x: u8 = fold::<keep_elem, 4>(list![1, 2, 3], 9);\n    assert!(jet::eq_8(x, {want}));\n");
        let use_acc = |want: u8| format!("    let y: u8 = fold::<keep_acc, 4>(list![1, 2, 3], 9);\n    assert!(jet::eq_8(y, {want}));\n");
        let cnt = "{\n    let (carry, next): (bool, u8) = jet::increment_8(n);\n    next\n}\n";
        let count_bytes = format!("fn count_bytes(e: u8, n: u8) -> u8 {cnt}");
        let count_words = format!("fn count_words(e: u16, n: u8) -> u8 {cnt}");
        let use_bytes = |want: u8| format!("    let p: u8 = fold::<count_bytes, 8>(list![7, 7, 7, 7, 7], 0);\n    assert!(jet::eq_8(p, {want}));\n");
        let use_words = |want: u8| format!("    let q: u8 = fold::<count_words, 4>(list![7, 7, 7], 0);\n    assert!(jet::eq_8(q, {want}));\n");
        let mut cases: Vec<(String, String, bool)> = vec![];
        for (good1, good2) in [(true, true), (false, true), (true, false)] {
            let ok = good1 && good2;
            let (a, b) = (if good1 { 3 } else { 9 }, if good2 { 9 } else { 3 });
            cases.push(("keep_elem then keep_acc".into(), format!("{keep_elem}{keep_acc}fn main() {{\n{}{}}}\n", use_elem(a), use_acc(b)), ok));
            cases.push(("keep_acc then keep_elem".into(), format!("{keep_acc}{keep_elem}fn main() {{\n{}{}}}\n", use_acc(b), use_elem(a)), ok));
            let (c, d) = (if good1 { 5 } else { 3 }, if good2 { 3 } else { 5 });
            cases.push(("count_bytes then count_words".into(), format!("{count_bytes}{count_words}fn main() {{\n{}{}}}\n", use_bytes(c), use_words(d)), ok));
            cases.push(("count_words then count_bytes".into(), format!("{count_words}{count_bytes}fn main() {{\n{}{}}}\n", use_words(d), use_bytes(c)), ok));
        }
        rep.set("twin_fold_function_programs", json!(cases.len()));
        for (label, text, should) in &cases {
            rep.state();
            rep.transition(1);
            rep.nontrivial(1);
            for debug in [false, true] {
                rep.eval(1);
                rep.trace(1);
                match drive::build(text, simfony::Arguments::default(), debug) {
                    Ok(built) => {
                        let out = drive::DUMMY.with(|env| drive::run(&built, drive::witness_map(&[]), env));
                        let ok = matches!((&out, should), (drive::RunOutcome::Success, true) | (drive::RunOutcome::Failure(_), false));
                        rep.class(if ok { "twin-folds-ok" } else { "twin-folds-wrong" });
                        if !ok {
                            rep.violation(format!("C08:twin-fold-functions:{}", out.class()), format!("{label}: expected {}, got {out:?}", if *should { "success" } else { "failure" }), run_replay(text, &[], debug, if *should { "success" } else { "failure" }, out.class()));
                        }
                    }
                    Err(o) => rep.violation("C08:not-compiled", format!("{label}: not compiled: {o:?}"), json!({"kind": "compile", "program": text, "expect": "accept", "observed": "reject"})),
                }
            }
        }
    }
    rep.finish(
        "state = (bound N, length k, list source, fold function); non-trivial = lengths k >= 3 that populate at least two blocks of the list layout",
        &["R2's fold is the plain left fold of C08's statement", "jets used by the fold functions are modelled by R5 and trusted in simplicity-lang"],
        true,
    )
}

fn check_case(rep: &Report, c: &Case, idx: usize, env: &drive::Env) {
    rep.state();
    rep.transition(1);
    let (f, el_ty, acc_ty, init, elements) = instance(c);
    let list_ty = Ty::list(el_ty.clone(), c.n);
    let lit = Expr::List(elements.iter().map(|v| val_expr(v, &el_ty)).collect());
    let init_e = val_expr(&init, &acc_ty);
    let fname = f.name.clone();
    let mut fns = vec![f];
    let mut free: Vec<(String, Ty)> = vec![];
    let mut assignments: Vec<Vec<Val>> = vec![vec![]];
    let list_expr = match c.source {
        "literal" | "param" => lit.clone(),
        "witness" => {
            free.push(("xl".into(), list_ty.clone()));
            assignments = vec![vec![Val::List(elements.clone())]];
            var("xl")
        }
        "witness-elements" | "mixed-elements" => {
            let mut es = vec![];
            let mut vals = vec![];
            for (i, v) in elements.iter().enumerate() {
                if c.source == "mixed-elements" && i % 2 == 0 {
                    es.push(val_expr(v, &el_ty));
                } else {
                    free.push((format!("xe{i:03}"), el_ty.clone()));
                    vals.push(v.clone());
                    es.push(var(&format!("xe{i:03}")));
                }
            }
            assignments = vec![vals];
            Expr::List(es)
        }
        "nested-literal-elements" => {
            // fn last_of(e: T, acc: T) -> T { e };  element i (odd i, and the last one) = fold::<last_of, 2>(list![v_i], v_i) = v_i
            fns.push(FnDef { name: "last_of".into(), params: vec![("e".into(), el_ty.clone()), ("acc".into(), el_ty.clone())], ret: Some(el_ty.clone()), body: (vec![], Some(Box::new(var("e")))) });
            let n_el = elements.len();
            let es: Vec<Expr> = elements
                .iter()
                .enumerate()
                .map(|(i, v)| {
                    let lit = val_expr(v, &el_ty);
                    if i % 2 == 1 || i + 1 == n_el {
                        call(CallName::Fold("last_of".into(), 2), vec![Expr::List(vec![lit.clone()]), lit])
                    } else {
                        lit
                    }
                })
                .collect();
            Expr::List(es)
        }
        "function" => {
            fns.push(FnDef { name: "mk".into(), params: vec![], ret: Some(list_ty.clone()), body: (vec![], Some(Box::new(lit))) });
            fcall("mk", vec![])
        }
        "match" => {
            free.push(("xsel".into(), Ty::Bool));
            assignments = vec![vec![Val::Bool(true)], vec![Val::Bool(false)]];
            match_(var("xsel"), (MPat::True, lit), (MPat::False, Expr::List(vec![])))
        }
        _ => unreachable!(),
    };
    let term = call(CallName::Fold(fname, c.n), vec![list_expr, init_e]);
    let tag = format!("fold N={} k={} source={} fn={}", c.n, c.k, c.source, c.func);
    let direct = c.source == "witness-elements" || c.source == "mixed-elements";
    let pinned = match if direct { pin_build_direct(&term, &acc_ty, &free, &fns, &[false]) } else { pin_build(&term, &acc_ty, &free, &fns, &[false]) } {
        Ok(p) => p,
        Err((text, o)) => {
            rep.violation("C08:not-compiled", format!("{tag}: well-typed fold program not compiled: {o:?}"), json!({"kind": "compile", "program": text, "expect": "accept", "observed": "reject"}));
            return;
        }
    };
    let mut pinned = pinned;
    if c.source == "param" {
        // the same program with `param::XS` written directly as the fold's list operand, instantiated with the list as
        // argument; R2 evaluates the literal form (C12: instantiation equals literal substitution)
        let pterm = call(CallName::Fold(fns[0].name.clone(), c.n), vec![Expr::Param("XS".into()), val_expr(&init, &acc_ty)]);
        let ptext = crate::gen::wrap_term(&pterm, &acc_ty, &free, &fns).render();
        let args = vec![("XS".to_string(), Val::List(elements.clone()), list_ty.clone())];
        match drive::build(&ptext, drive::argument_map(&args), false) {
            Ok(b) => {
                pinned.built = vec![(false, b)];
                pinned.text = ptext;
                pinned.args = args;
            }
            Err(o) => {
                rep.violation("C08:not-compiled", format!("{tag}: well-typed fold program over a parameter not compiled: {o:?}"), json!({"kind": "instantiate", "program": ptext, "args": map_json(&args), "expect": "accept", "observed": "reject"}));
                return;
            }
        }
    }
    if c.k >= 3 && c.k.count_ones() >= 2 {
        rep.nontrivial(1);
    }
    for a in &assignments {
        rep.transition(1);
        pin_run(rep, "C08", &tag, &pinned, a, env, true);
    }
    if idx % 997 == 3 || rep.no_sample_yet() {
        rep.sample(4, || json!({"case": tag, "program": pinned.text.chars().take(1500).collect::<String>()}));
    }
}
