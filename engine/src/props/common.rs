//! Helpers shared by the program-level checks.

use crate::gen;
use crate::lang::*;
use crate::refmodel::{val_expr, zero_val};
use serde_json::{json, Value as J};

/// JSON description of a named-value map (for replay files): name, type text, value text.
pub fn map_json(m: &[(String, Val, Ty)]) -> J {
    J::Array(m.iter().map(|(n, v, t)| json!({"name": n, "ty": t.render(), "val": render_expr(&val_expr(v, t))})).collect())
}

/// Per-variable value lists such that the product stays <= cap: all values when the joint space is small,
/// otherwise the boundary alphabet with an even per-variable budget.
pub fn value_lists(free: &[(String, Ty)], cap: usize) -> (Vec<Vec<Val>>, bool) {
    let total = free.iter().fold(1u128, |a, (_, t)| a.saturating_mul(gen::count_vals(t)));
    if total <= cap as u128 {
        return (free.iter().map(|(_, t)| gen::all_vals(t)).collect(), true);
    }
    let n = free.len().max(1);
    let mut k = 2usize;
    while (k + 1).pow(n as u32) <= cap {
        k += 1;
    }
    (free.iter().map(|(_, t)| gen::vals(t, k)).collect(), false)
}

/// Up to `n` values of `ty` different from `v` (neighbours in the enumeration order).
pub fn other_vals(ty: &Ty, v: &Val, n: usize) -> Vec<Val> {
    let pool = gen::vals(ty, 16);
    let mut out: Vec<Val> = vec![];
    if let Some(i) = pool.iter().position(|x| x == v) {
        for d in 1..pool.len() {
            let c = &pool[(i + d) % pool.len()];
            if c != v && !out.contains(c) {
                out.push(c.clone());
            }
            if out.len() >= n {
                break;
            }
        }
    } else {
        for c in pool.iter() {
            if c != v {
                out.push(c.clone());
            }
            if out.len() >= n {
                break;
            }
        }
    }
    let z = zero_val(ty);
    if out.len() < n && z != *v && !out.contains(&z) {
        out.push(z);
    }
    out
}
