//! Helpers shared by the program-level checks.

use crate::gen;
use crate::lang::*;
use crate::refmodel::{val_expr, zero_val};
use serde_json::{json, Value as J};

/// JSON description of a named-value map (for replay files): name, type text, value text.
pub fn map_json(m: &[(String, Val, Ty)]) -> J {
    J::Array(m.iter().map(|(n, v, t)| json!({"name": n, "ty": t.render(), "val": render_expr(&val_expr(v, t))})).collect())
}

/// Per-variable value lists such that the product stays <= cap: all values when the joint space is small,
/// otherwise the boundary alphabet with an even per-variable budget.
pub fn value_lists(free: &[(String, Ty)], cap: usize) -> (Vec<Vec<Val>>, bool) {
    let total = free.iter().fold(1u128, |a, (_, t)| a.saturating_mul(gen::count_vals(t)));
    if total <= cap as u128 {
        return (free.iter().map(|(_, t)| gen::all_vals(t)).collect(), true);
    }
    let n = free.len().max(1);
    let mut k = 2usize;
    while (k + 1).pow(n as u32) <= cap {
        k += 1;
    }
    (free.iter().map(|(_, t)| gen::vals(t, k)).collect(), false)
}

/// Up to `n` values of `ty` different from `v` (neighbours in the enumeration order).
pub fn other_vals(ty: &Ty, v: &Val, n: usize) -> Vec<Val> {
    let pool = gen::vals(ty, 16);
    let mut out: Vec<Val> = vec![];
    if let Some(i) = pool.iter().position(|x| x == v) {
        for d in 1..pool.len() {
            let c = &pool[(i + d) % pool.len()];
            if c != v && !out.contains(c) {
                out.push(c.clone());
            }
            if out.len() >= n {
                break;
            }
        }
    } else {
        for c in pool.iter() {
            if c != v {
                out.push(c.clone());
            }
            if out.len() >= n {
                break;
            }
        }
    }
    let z = zero_val(ty);
    if out.len() < n && z != *v && !out.contains(&z) {
        out.push(z);
    }
    out
}

// ---------------------------------------------------------------------------------------------
// "pinned term" helper: wrap a term, compile it, and compare the implementation with R2 on one assignment

use crate::drive::{self, RunOutcome};
use crate::refmodel::{self, Evaluator, Stop};
use crate::report::Report;
use std::collections::HashMap;

pub struct Pinned {
    pub prog: Program,
    pub text: String,
    pub built: Vec<(bool, drive::Built)>,
    pub free: Vec<(String, Ty)>,
    pub ty: Ty,
    pub expr: Expr,
    /// arguments the built programs were instantiated with (empty unless the text uses `param::`)
    pub args: Vec<(String, Val, Ty)>,
}

/// Build `wrap_term(e)` with the given debug flags.
pub fn pin_build(e: &Expr, ty: &Ty, free: &[(String, Ty)], fns: &[FnDef], debug_flags: &[bool]) -> Result<Pinned, (String, drive::CompileOutcome)> {
    let prog = gen::wrap_term(e, ty, free, fns);
    let text = prog.render();
    let mut built = vec![];
    for d in debug_flags {
        match drive::build(&text, simfony::Arguments::default(), *d) {
            Ok(b) => built.push((*d, b)),
            Err(o) => return Err((text, o)),
        }
    }
    Ok(Pinned { prog, text, built, free: free.to_vec(), ty: ty.clone(), expr: e.clone(), args: vec![] })
}

/// Like `pin_build`, but every free variable that occurs exactly once in the term is written as a direct
/// `witness::NAME` expression at its use site instead of going through an anchored `let`. Only for terms whose use
/// sites inspect those witnesses completely (an un-anchored, partly inspected witness runs into known finding D1(ii)).
pub fn pin_build_direct(e: &Expr, ty: &Ty, free: &[(String, Ty)], fns: &[FnDef], debug_flags: &[bool]) -> Result<Pinned, (String, drive::CompileOutcome)> {
    let (e_direct, rest, _) = gen::inline_single_use_witnesses(e, free);
    let prog = gen::wrap_term(&e_direct, ty, &rest, fns);
    let text = prog.render();
    let mut built = vec![];
    for d in debug_flags {
        match drive::build(&text, simfony::Arguments::default(), *d) {
            Ok(b) => built.push((*d, b)),
            Err(o) => return Err((text, o)),
        }
    }
    Ok(Pinned { prog, text, built, free: free.to_vec(), ty: ty.clone(), expr: e.clone(), args: vec![] })
}

pub fn run_replay(text: &str, witness: &[(String, Val, Ty)], debug: bool, expect: &str, observed: &str) -> J {
    json!({"kind": "run", "program": text, "args": [], "witness": map_json(witness), "debug": debug, "env": "dummy", "expect": expect, "observed": observed})
}

/// Run one assignment of the free variables. Returns Some(true/false) = R2 verdict (success / panic) when the
/// comparison could be made. `controls` adds wrong-EXPECT runs (which must fail).
pub fn pin_run(rep: &Report, prop: &str, tag: &str, p: &Pinned, vals: &[Val], env: &drive::Env, controls: bool) -> Option<bool> {
    let mut wmap: HashMap<String, Val> = HashMap::new();
    let mut wlist: Vec<(String, Val, Ty)> = vec![];
    let mut scope: HashMap<String, Val> = HashMap::new();
    for ((n, t), v) in p.free.iter().zip(vals) {
        wmap.insert(gen::wit_name_for(n), v.clone());
        wlist.push((gen::wit_name_for(n), v.clone(), t.clone()));
        scope.insert(n.clone(), v.clone());
    }
    let no_params = HashMap::new();
    let mut ev = match Evaluator::new(&p.prog, &wmap, &no_params) {
        Ok(ev) => ev,
        Err(s) => {
            rep.machinery(format!("evaluator setup: {s:?}"));
            return None;
        }
    };
    let mut envstack = vec![scope];
    let r2 = ev.eval(&p.expr, &p.ty, &mut envstack);
    let cases: Vec<(Val, bool)> = match &r2 {
        Ok(v) => {
            let mut c = vec![(v.clone(), true)];
            if controls {
                for o in other_vals(&p.ty, v, 1) {
                    c.push((o, false));
                }
            }
            c
        }
        Err(Stop::Panic(_)) => vec![(refmodel::zero_val(&p.ty), false)],
        Err(Stop::Stuck(s)) => {
            rep.machinery(format!("R2 stuck ({s}) on {}", p.text));
            return None;
        }
    };
    for (ci, (expect_val, should_succeed)) in cases.iter().enumerate() {
        let mut w = wlist.clone();
        w.push(("EXPECT".into(), expect_val.clone(), p.ty.clone()));
        for (debug, built) in &p.built {
            if *debug && ci > 0 {
                continue;
            }
            rep.eval(1);
            rep.trace(1);
            let out = drive::run(built, drive::witness_map(&w), env);
            rep.class(out.class());
            let ok = matches!((&out, should_succeed), (RunOutcome::Success, true) | (RunOutcome::Failure(_), false));
            if !ok {
                let expect = if *should_succeed { "success" } else { "failure" };
                let what = format!(
                    "{tag}: R2 says {} (value {}), implementation: {:?}",
                    expect,
                    match &r2 {
                        Ok(v) => render_expr(&refmodel::val_expr(v, &p.ty)),
                        Err(s) => format!("{s:?}"),
                    },
                    out
                );
                let mut rj = run_replay(&p.text, &w, *debug, expect, out.class());
                rj["args"] = map_json(&p.args);
                rep.violation(format!("{prop}:{}-but-{}:{}", expect, out.class(), tag.split(' ').next().unwrap_or("")), what, rj);
            }
        }
    }
    Some(r2.is_ok())
}

/// A type that differs from `ty` only in a position the value `v` does not inhabit (the payload type of a `None`, the
/// other side of a `Left` / `Right`, the element type of an empty list or of a zero-length array), searched depth
/// first.  `v` is also a well-formed value of the returned type, but the two types are different.
pub fn hidden_position_variant(ty: &Ty, v: &Val) -> Option<Ty> {
    fn other(t: &Ty) -> Ty {
        if *t == Ty::U(8) {
            Ty::U(16)
        } else {
            Ty::U(8)
        }
    }
    match (ty, v) {
        (Ty::Option(x), Val::None) => Some(Ty::opt(other(x))),
        (Ty::Option(x), Val::Some(i)) => hidden_position_variant(x, i).map(Ty::opt),
        (Ty::Either(l, r), Val::Left(i)) => Some(hidden_position_variant(l, i).map(|l2| Ty::either(l2, (**r).clone())).unwrap_or_else(|| Ty::either((**l).clone(), other(r)))),
        (Ty::Either(l, r), Val::Right(i)) => Some(hidden_position_variant(r, i).map(|r2| Ty::either((**l).clone(), r2)).unwrap_or_else(|| Ty::either(other(l), (**r).clone()))),
        (Ty::List(x, n), Val::List(es)) if es.is_empty() => Some(Ty::list(other(x), *n)),
        (Ty::Array(x, 0), _) => Some(Ty::arr(other(x), 0)),
        (Ty::List(x, n), Val::List(es)) => es.iter().find_map(|e| hidden_position_variant(x, e)).map(|x2| Ty::list(x2, *n)),
        (Ty::Array(x, n), Val::Array(es)) => es.iter().find_map(|e| hidden_position_variant(x, e)).map(|x2| Ty::arr(x2, *n)),
        (Ty::Tuple(ts), Val::Tuple(vs)) => {
            for (k, (t, e)) in ts.iter().zip(vs).enumerate() {
                if let Some(t2) = hidden_position_variant(t, e) {
                    let mut ts2 = ts.clone();
                    ts2[k] = t2;
                    return Some(Ty::Tuple(ts2));
                }
            }
            None
        }
        _ => None,
    }
}
