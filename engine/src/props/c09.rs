//! C09 — for_while iterates 0,1,2,... and stops at the first Left.  Oracle: R2.

use crate::drive;
use crate::explore::par_for;
use crate::gen;
use crate::lang::*;
use crate::props::common::*;
use crate::report::Report;
use serde_json::json;

/// ctx = (x: uW, x32: u32, enabled: bool, panic_after: bool, marker: u8)
fn ctx_ty(w: u16) -> Ty {
    Ty::tup(vec![Ty::U(w), Ty::U(32), Ty::Bool, Ty::Bool, Ty::U(8)])
}

fn build_fns(w: u16) -> Vec<FnDef> {
    let mut h = gen::Helpers::default();
    let eqw = h.eq_fn(&Ty::U(w));
    let u32t = Ty::U(32);
    h.add_fn(FnDef {
        name: "inc32".into(),
        params: vec![("a".into(), u32t.clone())],
        ret: Some(u32t.clone()),
        body: (vec![let_(Pat::Tuple(vec![Pat::id("c"), Pat::id("s")]), Ty::tup(vec![Ty::Bool, u32t.clone()]), jet("increment_32", vec![var("a")]))], Some(Box::new(var("s")))),
    });
    let res = Ty::either(u32t.clone(), u32t.clone());
    // fn body(acc: u32, ctx: Ctx, i: uW) -> Either<u32, u32>
    // the body re-binds its accumulator parameter in its top-level block (`let prev = acc; let acc = inc32(prev);`) and
    // reads both names two scope levels further down, in the arms of nested matches
    let go_on = || Expr::Right(Box::new(var("acc")));
    h.add_fn(FnDef {
        name: "body".into(),
        params: vec![("acc".into(), u32t.clone()), ("ctx".into(), ctx_ty(w)), ("i".into(), Ty::U(w))],
        ret: Some(res),
        body: (
            vec![
                let_(Pat::Tuple(vec![Pat::id("x"), Pat::id("x32"), Pat::id("en"), Pat::id("pn"), Pat::id("marker")]), ctx_ty(w), var("ctx")),
                // the counter equals the low bits of the accumulator: iterations come in increasing order, each once
                Stmt::Expr(assert_(fcall(&eqw, vec![var("i"), jet(&format!("rightmost_32_{w}"), vec![var("acc")])]))),
                // the context arrives unchanged in every iteration
                Stmt::Expr(assert_(jet("eq_8", vec![var("marker"), dec(165)]))),
                // no iteration after the exit point may be evaluated
                Stmt::Expr(match_(
                    var("pn"),
                    (MPat::True, match_(jet("lt_32", vec![var("x32"), jet("left_pad_low_16_32", vec![jet("rightmost_32_16", vec![var("acc")])])]), (MPat::True, call(CallName::Panic, vec![])), (MPat::False, Expr::Tuple(vec![])))),
                    (MPat::False, Expr::Tuple(vec![])),
                )),
            ],
            Some(Box::new(block(
                vec![let_(Pat::id("prev"), u32t.clone(), var("acc")), let_(Pat::id("acc"), u32t.clone(), fcall("inc32", vec![var("prev")]))],
                Some(match_(var("en"), (MPat::True, match_(fcall(&eqw, vec![var("i"), var("x")]), (MPat::True, Expr::Left(Box::new(var("prev")))), (MPat::False, go_on()))), (MPat::False, go_on()))),
            ))),
        ),
    });
    // a body that never looks at its counter: exactly 2^W iterations, never exits
    h.add_fn(FnDef {
        name: "blind".into(),
        params: vec![("acc".into(), u32t.clone()), ("ctx".into(), ctx_ty(w)), ("i".into(), Ty::U(w))],
        ret: Some(Ty::either(u32t.clone(), u32t.clone())),
        body: (vec![], Some(Box::new(Expr::Right(Box::new(fcall("inc32", vec![var("acc")])))))),
    });
    h.fns
}

pub fn run(rep: &Report) -> i32 {
    let quick = rep.is_quick();
    // width 16: quick runs only the edge exits (0, 1, 2^16-2, 2^16-1, never); thorough every exit iteration
    let widths: Vec<u16> = vec![1, 2, 4, 8, 16];
    rep.set("bounds", json!({"counter_widths": widths, "width_16": if quick {"edge exit iterations only"} else {"every exit iteration"}, "exit_iterations": "every i in 0..2^W-1, and never", "flags": "exit enabled x panic-after-exit x accumulator offset {0, 2^16}"}));
    // jobs: (width, x, enabled, panic_after, offset)
    let mut jobs: Vec<(u16, u32, bool, bool, u32)> = vec![];
    for &w in &widths {
        let n = 1u32 << w;
        for x in 0..n {
            for (en, pn) in [(true, false), (true, true), (false, false)] {
                if w == 16 && quick && !(x < 2 || x + 2 >= n) {
                    continue;
                }
                if w == 16 && (pn || (!en && x != 0)) {
                    // width 16: every exit iteration with the plain body; panic-after / never variants at the edges only
                    if !(x < 2 || x + 2 >= n) {
                        continue;
                    }
                }
                if !en && x > 1 && w < 16 {
                    continue; // "never exits" does not depend on x: two representatives
                }
                for off in [0u32, 1 << 16] {
                    if w == 16 && off != 0 && !(x < 2 || x + 2 >= n) {
                        continue;
                    }
                    jobs.push((w, x, en, pn, off));
                }
            }
        }
    }
    rep.set("runs", json!(jobs.len()));
    // one program per width
    let programs: Vec<(u16, Pinned)> = widths
        .iter()
        .filter_map(|&w| {
            let fns = build_fns(w);
            let free = vec![("xacc".to_string(), Ty::U(32)), ("xctx".to_string(), ctx_ty(w))];
            let term = call(CallName::ForWhile("body".into()), vec![var("xacc"), var("xctx")]);
            match pin_build(&term, &Ty::either(Ty::U(32), Ty::U(32)), &free, &fns, &[false, true]) {
                Ok(p) => Some((w, p)),
                Err((text, o)) => {
                    rep.violation("C09:not-compiled", format!("for_while program for width {w} not compiled: {o:?}"), json!({"kind": "compile", "program": text, "expect": "accept", "observed": "reject"}));
                    None
                }
            }
        })
        .collect();
    // counter-blind body: must run exactly 2^W iterations
    for &w in &widths {
        if w > 8 && quick {
            continue;
        }
        let fns = build_fns(w);
        let free = vec![("xacc".to_string(), Ty::U(32)), ("xctx".to_string(), ctx_ty(w))];
        let term = call(CallName::ForWhile("blind".into()), vec![var("xacc"), var("xctx")]);
        rep.state();
        rep.transition(1);
        match pin_build(&term, &Ty::either(Ty::U(32), Ty::U(32)), &free, &fns, &[false]) {
            Ok(p) => {
                let ctx = Val::Tuple(vec![Val::u(w, 0), Val::u(32, 0), Val::Bool(false), Val::Bool(false), Val::u(8, 165)]);
                for off in [0u32, 7] {
                    drive::DUMMY.with(|env| pin_run(rep, "C09", &format!("for_while W={w} counter-blind body offset={off}"), &p, &[Val::u(32, off as u128), ctx.clone()], env, true));
                }
            }
            Err((text, o)) => rep.violation("C09:not-compiled", format!("counter-blind for_while program for width {w} not compiled: {o:?}"), json!({"kind": "compile", "program": text, "expect": "accept", "observed": "reject"})),
        }
    }
    // two loop functions in one program whose bodies have the same text while their parameter lists differ (roles of
    // accumulator and context exchanged; counters of different widths), in both orders: each loop must run its own
    // function.  Expected values computed by hand from the statement; every program also runs with one expected
    // value changed, which must fail
    {
        let body = "{\n    let (borrow, next): (bool, u8) = jet::subtract_8(level, rate);\n    match borrow {\n        true => Left(level),\n        false => Right(next),\n    }\n}\n";
        let drain = format!("fn drain(level: u8, rate: u8, i: u2) -> Either<u8, u8> {body}");
        let throttle = format!("fn throttle(rate: u8, level: u8, i: u2) -> Either<u8, u8> {body}");
        let use_drain = |want: u8| format!("    let a: Either<u8, u8> = for_while::<drain>(10, 3);\n    assert!(jet::eq_8(unwrap_left::<u8>(a), {want}));\n");
        let use_throttle = |want: u8| format!("    let b: Either<u8, u8> = for_while::<throttle>(3, 10);\n    assert!(jet::eq_8(unwrap_right::<u8>(b), {want}));\n");
        let cbody = "{\n    let (carry, next): (bool, u8) = jet::increment_8(acc);\n    Right(next)\n}\n";
        let t4 = format!("fn times_4(acc: u8, ctx: (), i: u2) -> Either<u8, u8> {cbody}");
        let t16 = format!("fn times_16(acc: u8, ctx: (), i: u4) -> Either<u8, u8> {cbody}");
        let use_t4 = |want: u8| format!("    let c: Either<u8, u8> = for_while::<times_4>(0, ());\n    assert!(jet::eq_8(unwrap_right::<u8>(c), {want}));\n");
        let use_t16 = |want: u8| format!("    let d: Either<u8, u8> = for_while::<times_16>(0, ());\n    assert!(jet::eq_8(unwrap_right::<u8>(d), {want}));\n");
        let mut cases: Vec<(String, String, bool)> = vec![];
        for (good1, good2) in [(true, true), (false, true), (true, false)] {
            let ok = good1 && good2;
            let (d, t) = (if good1 { 1 } else { 2 }, if good2 { 3 } else { 7 });
            cases.push(("drain then throttle".into(), format!("{drain}{throttle}fn main() {{\n{}{}}}\n", use_drain(d), use_throttle(t)), ok));
            cases.push(("throttle then drain".into(), format!("{throttle}{drain}fn main() {{\n{}{}}}\n", use_throttle(t), use_drain(d)), ok));
            let (a, b) = (if good1 { 4 } else { 16 }, if good2 { 16 } else { 4 });
            cases.push(("times_4 then times_16".into(), format!("{t4}{t16}fn main() {{\n{}{}}}\n", use_t4(a), use_t16(b)), ok));
            cases.push(("times_16 then times_4".into(), format!("{t16}{t4}fn main() {{\n{}{}}}\n", use_t16(b), use_t4(a)), ok));
        }
        rep.set("twin_loop_function_programs", json!(cases.len()));
        for (label, text, should) in &cases {
            rep.state();
            rep.transition(1);
            rep.nontrivial(1);
            for debug in [false, true] {
                rep.eval(1);
                rep.trace(1);
                match drive::build(text, simfony::Arguments::default(), debug) {
                    Ok(built) => {
                        let out = drive::DUMMY.with(|env| drive::run(&built, drive::witness_map(&[]), env));
                        let ok = matches!((&out, should), (drive::RunOutcome::Success, true) | (drive::RunOutcome::Failure(_), false));
                        rep.class(if ok { "twin-loops-ok" } else { "twin-loops-wrong" });
                        if !ok {
                            rep.violation(format!("C09:twin-loop-functions:{}", out.class()), format!("{label}: expected {}, got {out:?}", if *should { "success" } else { "failure" }), run_replay(text, &[], debug, if *should { "success" } else { "failure" }, out.class()));
                        }
                    }
                    Err(o) => rep.violation("C09:not-compiled", format!("{label}: not compiled: {o:?}"), json!({"kind": "compile", "program": text, "expect": "accept", "observed": "reject"})),
                }
            }
        }
    }
    // Built is not Sync: rebuild per thread lazily
    let texts: Vec<(u16, String)> = programs.iter().map(|(w, p)| (*w, p.text.clone())).collect();
    drop(programs);
    par_for(&jobs, rep, 8, |i, &(w, x, en, pn, off)| {
        thread_local! {
            static CACHE: std::cell::RefCell<std::collections::HashMap<u16, Pinned>> = std::cell::RefCell::new(Default::default());
        }
        rep.state();
        rep.transition(1);
        CACHE.with(|c| {
            let mut c = c.borrow_mut();
            if !c.contains_key(&w) {
                let fns = build_fns(w);
                let free = vec![("xacc".to_string(), Ty::U(32)), ("xctx".to_string(), ctx_ty(w))];
                let term = call(CallName::ForWhile("body".into()), vec![var("xacc"), var("xctx")]);
                match pin_build(&term, &Ty::either(Ty::U(32), Ty::U(32)), &free, &fns, &[false, true]) {
                    Ok(p) => {
                        c.insert(w, p);
                    }
                    Err(_) => return,
                }
            }
            let p = &c[&w];
            let ctx = Val::Tuple(vec![Val::u(w, x as u128), Val::u(32, x as u128), Val::Bool(en), Val::Bool(pn), Val::u(8, 165)]);
            let vals = vec![Val::u(32, off as u128), ctx];
            let tag = format!("for_while W={w} exit={} panic_after={pn} offset={off}", if en { x.to_string() } else { "never".into() });
            if en && x != 0 && x + 1 != (1u32 << w) {
                rep.nontrivial(1);
            }
            drive::DUMMY.with(|env| pin_run(rep, "C09", &tag, p, &vals, env, i % 4 == 0 || w <= 4));
            if i % 211 == 7 || rep.no_sample_yet() {
                rep.sample(3, || json!({"case": tag, "program": texts.iter().find(|t| t.0 == w).map(|t| t.1.clone())}));
            }
        });
    });
    rep.finish(
        "state = (counter width, exit iteration or never, panic-after flag, accumulator offset); non-trivial = exits at an iteration that is neither the first nor the last",
        &["R2's for_while is the loop of C09's statement", "the loop body asserts in every iteration that the counter equals the low bits of the accumulator (order + exactly-once) and that the context is unchanged"],
        true,
    )
}
