//! C03 — accepted programs always compile to well-typed 1 -> 1 Simplicity.  Intrinsic oracle.

use crate::drive;
use crate::explore::par_for;
use crate::gen;
use crate::mutate;
use crate::props::{c01, c04};
use crate::refmodel::{self, zero_val};
use crate::report::Report;
use serde_json::json;
use std::collections::{HashMap, HashSet};
use std::sync::Mutex;

/// Judge one source text.  `member_of_family` = the text is a member of the well-typed generated family
/// (trivial for this property); other accepted texts are the non-trivial ones.
pub fn judge_text(rep: &Report, text: &str, origin: &str, family_member: bool) {
    rep.eval(1);
    let template = match drive::guard(|| simfony::TemplateProgram::new(text)) {
        Ok(Ok(t)) => t,
        Ok(Err(_)) => {
            rep.class("rejected(outside the quantifier)");
            return;
        }
        Err(_) => {
            rep.class("new-panicked(C06's subject)");
            return;
        }
    };
    rep.trace(1);
    if !family_member {
        rep.nontrivial(1);
    }
    // arguments synthesised from parameters(): the zero value of each type
    let mut args: Vec<(String, crate::lang::Val, crate::lang::Ty)> = vec![];
    for (n, t) in template.parameters().iter() {
        let ty = drive::from_sim_ty(t);
        args.push((n.as_inner().to_string(), zero_val(&ty), ty));
    }
    let replay = |observed: &str| json!({"kind": "instantiate", "program": text, "args": crate::props::common::map_json(&args), "expect": "ok", "observed": observed, "origin": origin});
    for debug in [false, true] {
        rep.eval(1);
        let r = drive::guard(|| template.instantiate(drive::argument_map(&args), debug));
        match r {
            Err(p) => {
                rep.class("INSTANTIATE-PANIC");
                rep.violation(format!("C03:instantiate-panic:{}", drive::panic_site(&p)), format!("instantiate panicked ({p}); origin {origin}"), replay("panic"));
                return;
            }
            Ok(Err(e)) => {
                let internal = e.contains("Failed to compile to Simplicity");
                rep.class(if internal { "CANNOT-COMPILE" } else { "INSTANTIATE-ERR" });
                rep.violation(
                    format!("C03:{}:{}", if internal { "cannot-compile" } else { "instantiate-err" }, c04::op_class(origin)),
                    format!("accepted program fails in instantiate: {}; origin {origin}", c04::last_line(&e)),
                    replay(if internal { "cannot-compile" } else { "err" }),
                );
                return;
            }
            Ok(Ok(compiled)) => {
                let c = drive::guard(|| {
                    let commit = compiled.commit();
                    let a = commit.arrow();
                    a.source.is_unit() && a.target.is_unit()
                });
                match c {
                    Ok(true) => rep.class("compiled-1->1"),
                    Ok(false) => {
                        rep.class("NOT-UNIT-ARROW");
                        rep.violation("C03:arrow-not-1->1", format!("commit() is not of type 1 -> 1; origin {origin}"), replay("arrow"));
                        return;
                    }
                    Err(p) => {
                        rep.class("COMMIT-PANIC");
                        rep.violation(format!("C03:commit-panic:{}", drive::panic_site(&p)), format!("commit() panicked ({p}); origin {origin}"), replay("commit-panic"));
                        return;
                    }
                }
            }
        }
    }
}

pub fn run(rep: &Report) -> i32 {
    let quick = rep.is_quick();
    let seen: Mutex<HashSet<u64>> = Mutex::new(HashSet::new());
    let fresh = |t: &str| seen.lock().unwrap().insert(crate::report::fxhash(t.as_bytes()));
    let fresh = &fresh;
    // (1) the well-typed family
    let fams = c01::families(quick);
    let (jobs, fns, transitions, _) = c01::enumerate(&fams, None);
    rep.transition(transitions);
    par_for(&jobs, rep, 64, |_, job| {
        let fam = &fams[job.fam].1;
        let free = gen::free_typed(&job.expr, &fam.universe);
        let extra = gen::fns_for(&job.expr, &fns[job.fam]);
        let text = gen::wrap_term(&job.expr, &job.ty, &free, &extra).render();
        if fresh(&text) {
            rep.state();
            judge_text(rep, &text, "family", true);
        }
    });
    // (1b) the small families of C01: deep environments, wide calls, wide literals, twin functions
    let extras = c01::extra_program_texts(quick);
    rep.transition(extras.len() as u64);
    par_for(&extras, rep, 8, |_, text| {
        if fresh(text) {
            rep.state();
            judge_text(rep, text, "family-extra", true);
        }
    });
    // (2) every single-edit near miss of the C04 bases (whatever the front end lets through must compile)
    let bases = c04::base_programs(quick);
    par_for(&bases, rep, 1, |bi, (name, base)| {
        let ms = mutate::near_misses_for(name, base, rep.is_quick());
        rep.transition(ms.len() as u64);
        for (op, m) in ms {
            if rep.out_of_time() {
                break;
            }
            let text = m.render();
            if fresh(&text) {
                rep.state();
                judge_text(rep, &text, &format!("{op} on {name}"), false);
                if (bi == 0 && op.starts_with("fn-swap")) || rep.no_sample_yet() {
                    rep.sample(3, || json!({"origin": format!("{op} on {name}"), "program": text, "r1": format!("{:?}", refmodel::check_program(&m).0)}));
                }
            }
        }
    });
    // (3) token-level sources: printer output, token mutants of the shipped examples, renamings
    crate::tokens::c03_sources(rep, quick, &|text: &str, origin: &str| {
        if fresh(text) {
            rep.state();
            rep.transition(1);
            judge_text(rep, text, origin, false);
        }
    });
    rep.finish(
        "state = one source text (deduplicated); only texts TemplateProgram::new accepts are judged; non-trivial = accepted texts that are not members of the generated well-typed family (accepted near misses, accepted token mutants, printer output)",
        &["arguments are synthesised from parameters() as the all-zero value of each reported type"],
        true,
    )
}
