//! C01 — compiled program behaves as the source semantics prescribe.
//! Space: all terms of family F (bounded depth) x all/boundary witness assignments x EXPECT in {R2 value,
//! neighbours} x {debug off, on}.  Oracle: R2.

use crate::drive::{self, RunOutcome};
use crate::explore::{par_for, product};
use crate::gen::{self, Family, TermGen};
use crate::lang::*;
use crate::props::common::*;
use crate::refmodel::{self, Evaluator, Stop, Verdict};
use crate::report::Report;
use serde_json::json;
use std::collections::{BTreeMap, BTreeSet, HashMap};
use std::sync::Mutex;

pub struct Job {
    pub ty: Ty,
    pub expr: Expr,
    pub fam: usize,
}

pub struct FamilySet {
    pub fams: Vec<(String, Family, usize)>,
}

pub fn families(quick: bool) -> Vec<(String, Family, usize)> {
    let mut v = vec![("A@1".to_string(), Family { universe: gen::universe_a(), vars_per_type: 2, loops: true }, 1usize)];
    if quick {
        v.push(("C@2".to_string(), Family { universe: gen::universe_c(), vars_per_type: 1, loops: false }, 2));
    } else {
        v.push(("B@2".to_string(), Family { universe: gen::universe_b(), vars_per_type: 1, loops: true }, 2));
        v.push(("C@3".to_string(), Family { universe: gen::universe_c(), vars_per_type: 1, loops: false }, 3));
    }
    // degenerate sizes last, so that the slices other checks take of this list keep their meaning
    v.push(("D@1".to_string(), Family { universe: gen::universe_d(), vars_per_type: 1, loops: true }, 1));
    v
}

/// Enumerate all jobs of the given families; returns jobs, per-family fn tables, transitions.
pub fn enumerate(fams: &[(String, Family, usize)], max_per_type: Option<usize>) -> (Vec<Job>, Vec<BTreeMap<String, FnDef>>, u64, Vec<(String, usize)>) {
    let mut jobs = vec![];
    let mut fns = vec![];
    let mut transitions = 0;
    let mut sizes = vec![];
    for (fi, (name, fam, depth)) in fams.iter().enumerate() {
        let mut g = TermGen::new(fam.clone());
        let mut n = 0;
        for ty in fam.universe.clone() {
            let mut ts = g.terms(&ty, *depth);
            if let Some(m) = max_per_type {
                ts.truncate(m);
            }
            n += ts.len();
            for e in ts {
                jobs.push(Job { ty: ty.clone(), expr: e, fam: fi });
            }
        }
        // extra result types that are not universe members but have interesting forms
        transitions += g.transitions;
        sizes.push((name.clone(), n));
        fns.push(g.fns.clone());
    }
    (jobs, fns, transitions, sizes)
}

pub fn run(rep: &Report) -> i32 {
    let fams = families(rep.is_quick());
    let (jobs, fns, transitions, sizes) = enumerate(&fams, None);
    rep.transition(transitions);
    rep.set("families", json!(sizes.iter().map(|(n, c)| json!({"family": n, "terms": c})).collect::<Vec<_>>()));
    rep.set(
        "bounds",
        json!({"family_depths": fams.iter().map(|f| format!("{} depth {}", f.0, f.2)).collect::<Vec<_>>(), "witness_assignments_cap": if rep.is_quick() { "32" } else { "256 (4096 for every 16th program by text hash)" }, "expect_neighbours": 2, "debug_flags": [false, true]}),
    );
    rep.set("alphabets", json!({"universe_A": gen::universe_a().iter().map(|t| t.render()).collect::<Vec<_>>(), "universe_B": gen::universe_b().iter().map(|t| t.render()).collect::<Vec<_>>(), "universe_D": gen::universe_d().iter().map(|t| t.render()).collect::<Vec<_>>(), "universe_C": gen::universe_c().iter().map(|t| t.render()).collect::<Vec<_>>()}));
    let forms: Mutex<BTreeSet<&'static str>> = Mutex::new(BTreeSet::new());
    let seen: Mutex<std::collections::HashSet<u64>> = Mutex::new(Default::default());
    // deep environments: n live bindings, every one of them read back (flat blocks, nested blocks, tuple patterns)
    let deep = deep_env_terms(rep.is_quick());
    rep.set("deep_environment_programs", json!(deep.len()));
    rep.transition(deep.len() as u64);
    let (wide, wide_fns) = wide_call_terms(rep.is_quick());
    rep.set("wide_call_programs", json!(wide.len()));
    rep.transition(wide.len() as u64);
    let uni = gen::universe_a();
    let (twins, twin_fns) = twin_function_terms();
    rep.set("twin_function_programs", json!(twins.len()));
    rep.transition(twins.len() as u64);
    let mut wide_fns = wide_fns;
    wide_fns.extend(twin_fns);
    let hygiene = scope_hygiene_terms();
    rep.set("scope_hygiene_programs", json!(hygiene.len()));
    rep.transition(hygiene.len() as u64);
    let lits = wide_literal_terms();
    rep.set("wide_literal_programs", json!(lits.len()));
    rep.transition(lits.len() as u64);
    let all: Vec<(Expr, Ty)> = deep.into_iter().chain(wide).chain(lits).chain(twins).chain(hygiene).collect();
    par_for(&all, rep, 4, |_, (e, ty)| {
        drive::DUMMY.with(|env| check_term(rep, e, ty, &uni, &wide_fns, env, &forms, &seen));
    });
    par_for(&jobs, rep, 16, |_, job| {
        let fam = &fams[job.fam].1;
        drive::DUMMY.with(|env| check_term(rep, &job.expr, &job.ty, &fam.universe, &fns[job.fam], env, &forms, &seen));
    });
    let forms = forms.into_inner().unwrap();
    rep.set("forms_covered", json!(forms.iter().collect::<Vec<_>>()));
    const REQUIRED: [&str; 30] = [
        "lit-bool", "lit-dec", "lit-bin", "lit-hex", "var", "paren", "tuple", "array", "list", "left", "right", "none", "some", "block", "match", "jet",
        "unwrap_left", "unwrap_right", "is_none", "unwrap", "assert", "panic", "dbg", "cast", "call", "fold", "for_while", "pat-tuple", "pat-array", "match-either",
    ];
    if rep.caps_hit.lock().unwrap().is_empty() {
        for f in REQUIRED {
            if !forms.contains(f) {
                rep.machinery(format!("vacuity guard: expression form `{f}` never generated"));
            }
        }
    }
    rep.finish(
        "state = one wrapped program of term family F (deduplicated on rendered text); non-trivial = programs for which both verdicts (success and failure) were observed over the explored inputs",
        &["simplicity-lang 0.4.0 decoder / Bit Machine / jets are trusted", "reference evaluator R2 and layout R3 (harness) are correct", "small-scope: terms up to the stated depth over the stated universes"],
        true,
    )
}

/// Terms whose value is one variable of a scope with `n` live bindings. Binding 0 and binding n/2 are
/// initialised from the free family variables, the others from distinct literals, so that reading the wrong
/// binding is visible. Shapes: one flat block; one block nested per binding; bindings made by tuple patterns.
pub fn deep_env_terms(quick: bool) -> Vec<(Expr, Ty)> {
    let flat: &[usize] = if quick { &[4, 31, 32, 33, 65] } else { &[4, 16, 31, 32, 33, 40, 63, 64, 65, 100, 127, 128, 129, 200, 255, 256, 257] };
    // (parse time doubles with every nested block level, so nesting stays within the depth 12 of C06)
    let nested: &[usize] = if quick { &[4, 8] } else { &[4, 8, 12] };
    let u8t = Ty::U(8);
    let u16t = Ty::U(16);
    let init = |i: usize, n: usize| -> Expr {
        if i == 0 {
            var(&gen::var_name(&Ty::U(8), 0))
        } else if i == n / 2 {
            var(&gen::var_name(&Ty::U(8), 1))
        } else {
            dec(((i * 7 + 3) % 256) as u128)
        }
    };
    let mut out = vec![];
    for &n in flat {
        // flat block, all u8
        let stmts: Vec<Stmt> = (0..n).map(|i| let_(Pat::id(&format!("v{i}")), u8t.clone(), init(i, n))).collect();
        for k in 0..n {
            out.push((block(stmts.clone(), Some(var(&format!("v{k}")))), u8t.clone()));
        }
        // tuple patterns: two names per statement, of different types
        let stmts: Vec<Stmt> = (0..n / 2)
            .map(|i| let_(Pat::Tuple(vec![Pat::id(&format!("v{i}")), Pat::id(&format!("w{i}"))]), Ty::tup(vec![u8t.clone(), u16t.clone()]), Expr::Tuple(vec![init(i, n / 2), dec((1000 + i * 13) as u128)])))
            .collect();
        for k in 0..n / 2 {
            out.push((block(stmts.clone(), Some(var(&format!("v{k}")))), u8t.clone()));
            out.push((block(stmts.clone(), Some(var(&format!("w{k}")))), u16t.clone()));
        }
    }
    for &n in nested {
        for k in 0..n {
            let mut e = var(&format!("v{k}"));
            for i in (0..n).rev() {
                e = block(vec![let_(Pat::id(&format!("v{i}")), u8t.clone(), init(i, n))], Some(e));
            }
            out.push((e, u8t.clone()));
        }
    }
    out
}

/// Calls of functions with `n` parameters (every third one `u16`, the others `u8`) that return their k-th parameter,
/// for every k; arguments 0 and n/2 come from the free family variables, the others are distinct literals.
pub fn wide_call_terms(quick: bool) -> (Vec<(Expr, Ty)>, BTreeMap<String, FnDef>) {
    let arities: &[usize] = if quick { &[1, 2, 3, 4, 5, 8, 9, 33] } else { &[1, 2, 3, 4, 5, 6, 7, 8, 9, 15, 16, 17, 31, 32, 33, 64, 65] };
    let pty = |i: usize| if i % 3 == 1 { Ty::U(16) } else { Ty::U(8) };
    let mut fns = BTreeMap::new();
    let mut out = vec![];
    for &n in arities {
        let args: Vec<Expr> = (0..n)
            .map(|i| match (i, pty(i)) {
                (0, _) => var(&gen::var_name(&Ty::U(8), 0)),
                (i, Ty::U(8)) if i == (n / 2) / 3 * 3 && i > 0 => var(&gen::var_name(&Ty::U(8), 1)),
                (i, Ty::U(16)) => dec((1000 + i * 13) as u128),
                (i, _) => dec(((i * 7 + 3) % 256) as u128),
            })
            .collect();
        for k in 0..n {
            let name = format!("pick_{n}_{k}");
            fns.insert(name.clone(), FnDef { name: name.clone(), params: (0..n).map(|i| (format!("p{i}"), pty(i))).collect(), ret: Some(pty(k)), body: (vec![], Some(Box::new(var(&format!("p{k}"))))) });
            out.push((fcall(&name, args.clone()), pty(k)));
        }
    }
    (out, fns)
}

/// Integer constants of every width in all three notations, with values whose bytes / 64-bit words all differ
/// (so that any reordering of digits, bytes or words is visible), plus the all-ones and single-bit patterns.
pub fn wide_literal_terms() -> Vec<(Expr, Ty)> {
    use crate::big::Big;
    let mut out = vec![];
    for &w in &[8u16, 16, 32, 64, 128, 256] {
        let nbytes = (w / 8) as usize;
        let asym = Big::from_bytes(&(0..nbytes).map(|i| (0x11 + 0x0d * i as u32) as u8 ^ if i % 2 == 0 { 0x80 } else { 0 }).collect::<Vec<u8>>());
        let ones = Big::pow2(w as usize).sub(&Big::from_u128(1));
        let low_word = Big::from_u128(0xfedc_ba98_7654_3210u64 as u128);
        let top_bit = Big::pow2(w as usize - 1);
        let mut vals = vec![asym, ones, top_bit.clone(), top_bit.add(&Big::from_u128(1))];
        if w > 64 {
            vals.push(low_word);
        }
        for v in vals {
            let ty = Ty::U(w);
            out.push((Expr::Lit(Lit::Dec(v.to_decimal())), ty.clone()));
            out.push((Expr::Lit(Lit::Bin(v.to_bin(w as usize))), ty.clone()));
            out.push((Expr::Lit(Lit::Hex(v.to_hex((w / 4) as usize))), ty.clone()));
        }
    }
    out
}

/// Statement-less blocks `{ e }`, stacked blocks and parenthesised blocks inside constructs that have a binding scope of
/// their own (match arms, blocks with lets), each FOLLOWED by reads of variables bound outside the construct: whatever
/// the construct does to the scope stack must be undone when it ends.
pub fn scope_hygiene_terms() -> Vec<(Expr, Ty)> {
    let u8t = Ty::U(8);
    let x = || var(&gen::var_name(&Ty::U(8), 0));
    let y = || var(&gen::var_name(&Ty::U(8), 1));
    let bare = |e: Expr| block(vec![], Some(e));
    let pair_ty = Ty::tup(vec![u8t.clone(), u8t.clone()]);
    let triple_ty = Ty::tup(vec![u8t.clone(), u8t.clone(), u8t.clone()]);
    let mut out = vec![];
    for wrap in 0..4 {
        let w = |e: Expr| match wrap {
            0 => bare(e),
            1 => bare(bare(e)),
            2 => Expr::Paren(Box::new(bare(e))),
            _ => bare(Expr::Paren(Box::new(e))),
        };
        // arm body is a wrapper; the other component of the tuple reads an outer variable afterwards
        out.push((Expr::Tuple(vec![match_(Expr::Some(Box::new(x())), (MPat::None, w(y())), (MPat::Some("m".into(), u8t.clone()), var("m"))), y()]), pair_ty.clone()));
        out.push((Expr::Tuple(vec![match_(Expr::Some(Box::new(x())), (MPat::None, y()), (MPat::Some("m".into(), u8t.clone()), w(var("m")))), x()]), pair_ty.clone()));
        out.push((Expr::Tuple(vec![match_(Expr::Left(Box::new(x())), (MPat::Left("l".into(), u8t.clone()), w(var("l"))), (MPat::Right("r".into(), u8t.clone()), w(var("r")))), y(), x()]), triple_ty.clone()));
        // block with lets whose last let is a wrapper-only block; outer variables read afterwards
        out.push((
            block(
                vec![let_(Pat::id("z"), u8t.clone(), x()), let_(Pat::id("a"), u8t.clone(), y()), let_(Pat::id("r"), u8t.clone(), block(vec![let_(Pat::id("k"), u8t.clone(), dec(5))], Some(w(var("k")))))],
                Some(Expr::Tuple(vec![var("r"), var("a"), var("z")])),
            ),
            triple_ty.clone(),
        ));
        // a wrapper as a statement, as a let right-hand side and as a call argument, each followed by reads
        out.push((block(vec![let_(Pat::id("a"), u8t.clone(), x()), let_(Pat::id("b"), u8t.clone(), w(y())), let_(Pat::id("c"), u8t.clone(), w(var("a")))], Some(Expr::Tuple(vec![var("c"), var("b"), var("a")]))), triple_ty.clone()));
    }
    out
}

/// The wrapped programs of the small families (deep environments, wide calls, wide literals, twin functions), for
/// checks that only need their texts (C03: whatever is accepted must compile).
pub fn extra_program_texts(quick: bool) -> Vec<String> {
    let (wide, mut fns) = wide_call_terms(quick);
    let (twins, twin_fns) = twin_function_terms();
    fns.extend(twin_fns);
    let uni = gen::universe_a();
    deep_env_terms(quick)
        .into_iter()
        .chain(wide)
        .chain(wide_literal_terms())
        .chain(twins)
        .chain(scope_hygiene_terms())
        .map(|(e, ty)| {
            let free = gen::free_typed(&e, &uni);
            let extra = gen::fns_for(&e, &fns);
            gen::wrap_term(&e, &ty, &free, &extra).render()
        })
        .collect()
}

/// Programs that use TWO functions with the same body text: parameter names permuted, an unused parameter at another
/// type, another arity, and the same for a direct call next to a fold - in both orders of use.
pub fn twin_function_terms() -> (Vec<(Expr, Ty)>, BTreeMap<String, FnDef>) {
    let u8t = Ty::U(8);
    let x = || var(&gen::var_name(&Ty::U(8), 0));
    let f = |name: &str, params: Vec<(&str, Ty)>, ret: Ty, body: Expr| FnDef { name: name.into(), params: params.into_iter().map(|(n, t)| (n.to_string(), t)).collect(), ret: Some(ret), body: (vec![], Some(Box::new(body))) };
    let mut fns = BTreeMap::new();
    for d in [
        f("tw_ab", vec![("a", u8t.clone()), ("b", u8t.clone())], u8t.clone(), var("a")),
        f("tw_ba", vec![("b", u8t.clone()), ("a", u8t.clone())], u8t.clone(), var("a")),
        f("tw_u", vec![("x", u8t.clone())], Ty::Bool, boolean(true)),
        f("tw_v", vec![("x", Ty::U(16))], Ty::Bool, boolean(true)),
        f("tw_one", vec![("a", u8t.clone())], u8t.clone(), var("a")),
        f("tw_two", vec![("a", u8t.clone()), ("b", u8t.clone())], u8t.clone(), var("a")),
        f("tw_keep8", vec![("element", u8t.clone()), ("acc", Ty::U(32))], Ty::U(32), var("acc")),
        f("tw_keep16", vec![("element", Ty::U(16)), ("acc", Ty::U(32))], Ty::U(32), var("acc")),
    ] {
        fns.insert(d.name.clone(), d);
    }
    let pair = |a: Expr, ta: Ty, b: Expr, tb: Ty| (Expr::Tuple(vec![a, b]), Ty::tup(vec![ta, tb]));
    let fold16 = || call(CallName::Fold("tw_keep16".into(), 4), vec![Expr::List(vec![dec(1), dec(2)]), dec(6)]);
    let out = vec![
        pair(fcall("tw_ab", vec![x(), dec(7)]), u8t.clone(), fcall("tw_ba", vec![x(), dec(7)]), u8t.clone()),
        pair(fcall("tw_ba", vec![x(), dec(7)]), u8t.clone(), fcall("tw_ab", vec![x(), dec(7)]), u8t.clone()),
        pair(fcall("tw_u", vec![x()]), Ty::Bool, fcall("tw_v", vec![dec(1000)]), Ty::Bool),
        pair(fcall("tw_v", vec![dec(1000)]), Ty::Bool, fcall("tw_u", vec![x()]), Ty::Bool),
        pair(fcall("tw_one", vec![x()]), u8t.clone(), fcall("tw_two", vec![dec(9), x()]), u8t.clone()),
        pair(fcall("tw_two", vec![dec(9), x()]), u8t.clone(), fcall("tw_one", vec![x()]), u8t.clone()),
        pair(fcall("tw_keep8", vec![x(), dec(5)]), Ty::U(32), fold16(), Ty::U(32)),
        pair(fold16(), Ty::U(32), fcall("tw_keep8", vec![x(), dec(5)]), Ty::U(32)),
    ];
    (out, fns)
}

fn run_json(text: &str, witness: &[(String, Val, Ty)], debug: bool, expect: &str, observed: &str) -> serde_json::Value {
    json!({"kind": "run", "program": text, "args": [], "witness": map_json(witness), "debug": debug, "env": "dummy", "expect": expect, "observed": observed})
}

#[allow(clippy::too_many_arguments)]
pub fn check_term(
    rep: &Report,
    e: &Expr,
    ty: &Ty,
    universe: &[Ty],
    fns: &BTreeMap<String, FnDef>,
    env: &drive::Env,
    forms: &Mutex<BTreeSet<&'static str>>,
    seen: &Mutex<std::collections::HashSet<u64>>,
) {
    let free = gen::free_typed(e, universe);
    let extra = gen::fns_for(e, fns);
    let prog = gen::wrap_term(e, ty, &free, &extra);
    let text = prog.render();
    if !seen.lock().unwrap().insert(crate::report::fxhash(text.as_bytes())) {
        return;
    }
    rep.state();
    {
        let mut f = BTreeSet::new();
        gen::forms_of(e, &mut f);
        for fd in &extra {
            if let Some(b) = &fd.body.1 {
                gen::forms_of(b, &mut f);
            }
        }
        forms.lock().unwrap().extend(f);
    }
    // R1 must accept every family member (harness sanity)
    let (verdict, _info) = refmodel::check_program(&prog);
    if verdict != Verdict::WellTyped {
        rep.machinery(format!("family member not well-typed per R1 ({verdict:?}): {text}"));
        return;
    }
    let mut builts = vec![];
    for debug in [false, true] {
        rep.eval(1);
        match drive::build(&text, simfony::Arguments::default(), debug) {
            Ok(b) => builts.push((debug, b)),
            Err(drive::CompileOutcome::Rejected(_)) | Err(drive::CompileOutcome::InstantiateErr(_)) => {
                // not accepted: outside C01's quantifier (C03/C04 judge this)
                rep.class("not-accepted(skipped)");
                return;
            }
            Err(drive::CompileOutcome::Panic(p)) => {
                rep.class("compile-panic(skipped; C03/C06)");
                let _ = p;
                return;
            }
        }
    }
    if builts[0].1.cmr == builts[1].1.cmr && false {
        // (debug builds may legitimately differ in CMR)
    }
    // witness-assignment budget: joint space enumerated completely when it has at most `cap` points, otherwise
    // the complete product of per-variable boundary alphabets sized to stay below `cap`
    let h = crate::report::fxhash(text.as_bytes());
    let cap = if rep.is_quick() { 32 } else if h % 16 == 0 { 4096 } else { 256 };
    let (lists, exhaustive_inputs) = value_lists(&free, cap);
    if exhaustive_inputs {
        rep.class("programs-with-exhaustive-witness-space");
    } else {
        rep.class("programs-with-boundary-witness-space");
    }
    let mut assignment_no = 0usize;
    let sizes: Vec<usize> = lists.iter().map(|l| l.len()).collect();
    let no_params = HashMap::new();
    let mut saw_success = false;
    let mut saw_failure = false;
    let mut first = true;
    product(&sizes, |idx| {
        rep.transition(1);
        let mut wmap: HashMap<String, Val> = HashMap::new();
        let mut wlist: Vec<(String, Val, Ty)> = vec![];
        let mut scope: HashMap<String, Val> = HashMap::new();
        for (k, (n, t)) in free.iter().enumerate() {
            let v = lists[k][idx[k]].clone();
            wmap.insert(gen::wit_name_for(n), v.clone());
            wlist.push((gen::wit_name_for(n), v.clone(), t.clone()));
            scope.insert(n.clone(), v);
        }
        // R2 on the term itself
        let mut ev = match Evaluator::new(&prog, &wmap, &no_params) {
            Ok(ev) => ev,
            Err(s) => {
                rep.machinery(format!("evaluator setup: {s:?}"));
                return;
            }
        };
        let mut envstack = vec![scope];
        let r2 = ev.eval(e, ty, &mut envstack);
        let cases: Vec<(Val, bool)> = match &r2 {
            Ok(v) => {
                let mut c = vec![(v.clone(), true)];
                for o in other_vals(ty, v, 2) {
                    c.push((o, false));
                }
                c
            }
            Err(Stop::Panic(_)) => vec![(refmodel::zero_val(ty), false)],
            Err(Stop::Stuck(s)) => {
                rep.machinery(format!("R2 stuck ({s}) on {text}"));
                return;
            }
        };
        assignment_no += 1;
        for (ci, (expect_val, should_succeed)) in cases.iter().enumerate() {
            if ci > 0 && assignment_no > 2 {
                break; // wrong-EXPECT controls on the first two assignments only (they guard against a vacuous eq)
            }
            let mut w = wlist.clone();
            w.push(("EXPECT".into(), expect_val.clone(), ty.clone()));
            for (debug, built) in &builts {
                if *debug && (ci > 0 || (assignment_no > 8 && assignment_no % 4 != 0)) {
                    continue; // debug build: correct EXPECT only; first 8 assignments and every 4th after
                }
                rep.eval(1);
                rep.trace(1);
                let out = drive::run(built, drive::witness_map(&w), env);
                rep.class(out.class());
                let ok = match (&out, should_succeed) {
                    (RunOutcome::Success, true) => true,
                    (RunOutcome::Failure(_), false) => true,
                    _ => false,
                };
                match out {
                    RunOutcome::Success => saw_success = true,
                    RunOutcome::Failure(_) => saw_failure = true,
                    _ => {}
                }
                if !ok {
                    let expect = if *should_succeed { "success" } else { "failure" };
                    let what = format!(
                        "R2 says {} (term value {}), implementation: {:?}; term `{}` : {}",
                        expect,
                        match &r2 {
                            Ok(v) => render_expr(&refmodel::val_expr(v, ty)),
                            Err(s) => format!("{s:?}"),
                        },
                        out,
                        render_expr(e),
                        ty.render()
                    );
                    let mut fset = BTreeSet::new();
                    gen::forms_of(e, &mut fset);
                    let top = match e {
                        Expr::Call(n, _) => format!("{:?}", std::mem::discriminant(n)),
                        _ => String::new(),
                    };
                    let _ = top;
                    let sig = format!("C01:{}-but-{}:{}", expect, out.class(), top_form(e));
                    rep.violation(sig, what, run_json(&text, &w, *debug, expect, out.class()));
                }
            }
        }
        if first && (rep.no_sample_yet() || crate::report::fxhash(text.as_bytes()) % 5000 < 2) {
            first = false;
            rep.sample(4, || json!({"term": render_expr(e), "type": ty.render(), "witness": map_json(&wlist), "r2": format!("{:?}", r2.as_ref().map(|v| render_expr(&refmodel::val_expr(v, ty)))), "program": text}));
        }
    });
    if saw_success && saw_failure {
        rep.nontrivial(1);
    }
    let _ = exhaustive_inputs;
}

pub fn top_form(e: &Expr) -> &'static str {
    let mut s = BTreeSet::new();
    // only the top node
    match e {
        Expr::Call(n, _) => match n {
            CallName::Jet(_) => "jet",
            CallName::UnwrapLeft(_) => "unwrap_left",
            CallName::UnwrapRight(_) => "unwrap_right",
            CallName::IsNone(_) => "is_none",
            CallName::Unwrap => "unwrap",
            CallName::Assert => "assert",
            CallName::Panic => "panic",
            CallName::Dbg => "dbg",
            CallName::Cast(_) => "cast",
            CallName::Fn(_) => "call",
            CallName::Fold(..) => "fold",
            CallName::ForWhile(_) => "for_while",
        },
        Expr::Block(..) => "block",
        Expr::Match(..) => "match",
        Expr::Paren(_) => "paren",
        Expr::Tuple(_) => "tuple",
        Expr::Array(_) => "array",
        Expr::List(_) => "list",
        Expr::Left(_) => "left",
        Expr::Right(_) => "right",
        Expr::Some(_) => "some",
        _ => {
            gen::forms_of(e, &mut s);
            s.into_iter().next().unwrap_or("leaf")
        }
    }
}
