//! C14 — debug symbols are behaviour-neutral and point at the right call.

use crate::drive;
use crate::explore::{par_for, product};
use crate::gen;
use crate::lang::*;
use crate::props::c01;
use crate::props::common::*;
use crate::refmodel::{self, Evaluator};
use crate::report::Report;
use serde_json::json;
use simfony::debug::TrackedCallName;
use simfony::simplicity::{Cmr, FailEntropy};
use simfony::value::StructuralValue;
use std::collections::{BTreeSet, HashMap};

const KINDS: [&str; 7] = ["assert", "panic", "unwrap", "unwrap_left", "unwrap_right", "dbg", "jet"];

/// An expression of type u8 over variable `x: u8` whose outermost interesting call is of the given kind.
fn site_expr(kind: &str, x: &str) -> Expr {
    let u8t = Ty::U(8);
    match kind {
        "assert" => block(vec![Stmt::Expr(assert_(jet("eq_8", vec![var(x), var(x)])))], Some(var(x))),
        "panic" => match_(jet("lt_8", vec![var(x), var(x)]), (MPat::True, call(CallName::Panic, vec![])), (MPat::False, var(x))),
        "unwrap" => call(CallName::Unwrap, vec![Expr::Some(Box::new(var(x)))]),
        "unwrap_left" => call(CallName::UnwrapLeft(Ty::Bool), vec![Expr::Left(Box::new(var(x)))]),
        "unwrap_right" => call(CallName::UnwrapRight(u8t), vec![Expr::Right(Box::new(var(x)))]),
        "dbg" => call(CallName::Dbg, vec![var(x)]),
        "jet" => jet("xor_8", vec![var(x), dec(0)]),
        "combo" => {
            // assert!(jet::eq_8(dbg!(unwrap(Some(x))), unwrap_left::<bool>(Left(unwrap_right::<u8>(Right(x))))));  x
            let inner = jet(
                "eq_8",
                vec![
                    call(CallName::Dbg, vec![call(CallName::Unwrap, vec![Expr::Some(Box::new(var(x)))])]),
                    call(CallName::UnwrapLeft(Ty::Bool), vec![Expr::Left(Box::new(call(CallName::UnwrapRight(Ty::U(8)), vec![Expr::Right(Box::new(var(x)))])))]),
                ],
            );
            block(vec![Stmt::Expr(assert_(inner))], Some(var(x)))
        }
        "twins" => {
            // two textually identical call sites
            block(vec![Stmt::Expr(assert_(jet("eq_8", vec![var(x), var(x)]))), Stmt::Expr(assert_(jet("eq_8", vec![var(x), var(x)])))], Some(var(x)))
        }
        "dbg-tuple" => {
            // dbg! at a compound type
            let t = Ty::tup(vec![Ty::U(8), Ty::opt(Ty::arr(Ty::U(8), 2))]);
            block(vec![let_(Pat::Tuple(vec![Pat::id("p"), Pat::Ignore]), t, call(CallName::Dbg, vec![Expr::Tuple(vec![var(x), Expr::Some(Box::new(Expr::Array(vec![var(x), dec(3)])))])]))], Some(var("p")))
        }
        "dbg-either-same-sides" => {
            // dbg! at sum types whose two sides have the same type: the side must come from the value, not from the type
            let e = Ty::either(Ty::U(8), Ty::U(8));
            block(
                vec![
                    let_(Pat::id("r_"), e.clone(), call(CallName::Dbg, vec![Expr::Right(Box::new(var(x)))])),
                    let_(Pat::id("l_"), e.clone(), call(CallName::Dbg, vec![Expr::Left(Box::new(var(x)))])),
                    let_(Pat::id("o_"), Ty::opt(e.clone()), call(CallName::Dbg, vec![Expr::Some(Box::new(Expr::Right(Box::new(var(x)))))])),
                    let_(Pat::id("n_"), Ty::either(e.clone(), e.clone()), call(CallName::Dbg, vec![Expr::Right(Box::new(Expr::Left(Box::new(var(x)))))])),
                    let_(Pat::id("u_"), Ty::U(8), call(CallName::UnwrapRight(Ty::U(8)), vec![var("r_")])),
                ],
                Some(var("u_")),
            )
        }
        k if k.starts_with("dbg-array-") || k.starts_with("dbg-list-") => {
            // dbg! at a type with more leaves than any integer: "dbg-array-<n>" = [u8; n], "dbg-list-<k>" = k elements
            // in List<u8, 2 * next_pow2(k)>; element 0 is the variable, the others distinct constants
            let n: usize = k.rsplit('-').next().unwrap().parse().unwrap();
            let elems: Vec<Expr> = (0..n).map(|i| if i == 0 { var(x) } else { dec((i as u128 * 7 + 3) % 251) }).collect();
            let (ty, e) = if k.starts_with("dbg-array-") { (Ty::arr(Ty::U(8), n), Expr::Array(elems)) } else { (Ty::list(Ty::U(8), 2 * n.next_power_of_two()), Expr::List(elems)) };
            block(vec![let_(Pat::id("wide_"), ty, call(CallName::Dbg, vec![e]))], Some(var(x)))
        }
        other => panic!("unknown site kind {other}"),
    }
}

/// Site kinds whose programs are large: run in two contexts and three layouts only.
const WIDE_KINDS: [&str; 4] = ["dbg-array-256", "dbg-array-257", "dbg-array-1000", "dbg-list-600"];

/// contexts: where the site expression is placed
const CONTEXTS: [&str; 7] = ["main", "fn-uncalled", "fn-once", "fn-twice", "fold-body", "for_while-body", "nested-fns"];

fn site_program(kind: &str, kind2: Option<&str>, ctx: &str) -> Program {
    let u8t = Ty::U(8);
    let mut h = gen::Helpers::default();
    let mut fns: Vec<FnDef> = vec![];
    let mut stmts = gen::anchored_witness(&mut h, "x", "X", &u8t);
    let f_site = |name: &str, k: &str| FnDef { name: name.into(), params: vec![("v".into(), Ty::U(8))], ret: Some(Ty::U(8)), body: (vec![], Some(Box::new(site_expr(k, "v")))) };
    match ctx {
        "main" => {
            stmts.push(let_(Pat::id("y"), u8t.clone(), site_expr(kind, "x")));
        }
        "fn-uncalled" => {
            fns.push(f_site("site", kind));
            stmts.push(let_(Pat::id("y"), u8t.clone(), var("x")));
        }
        "fn-once" => {
            fns.push(f_site("site", kind));
            stmts.push(let_(Pat::id("y"), u8t.clone(), fcall("site", vec![var("x")])));
        }
        "fn-twice" => {
            fns.push(f_site("site", kind));
            stmts.push(let_(Pat::id("y0"), u8t.clone(), fcall("site", vec![var("x")])));
            stmts.push(let_(Pat::id("y"), u8t.clone(), fcall("site", vec![var("y0")])));
        }
        "fold-body" => {
            fns.push(FnDef {
                name: "step".into(),
                params: vec![("e".into(), Ty::U(8)), ("acc".into(), Ty::U(8))],
                ret: Some(Ty::U(8)),
                body: (vec![let_(Pat::id("v"), Ty::U(8), jet("xor_8", vec![var("e"), var("acc")]))], Some(Box::new(site_expr(kind, "v")))),
            });
            stmts.push(let_(Pat::id("y"), u8t.clone(), call(CallName::Fold("step".into(), 4), vec![Expr::List(vec![dec(1), var("x"), dec(3)]), dec(0)])));
        }
        "for_while-body" => {
            fns.push(FnDef {
                name: "lp".into(),
                params: vec![("acc".into(), Ty::U(8)), ("c".into(), Ty::U(8)), ("i".into(), Ty::U(2))],
                ret: Some(Ty::either(Ty::U(8), Ty::U(8))),
                body: (vec![let_(Pat::id("v"), Ty::U(8), jet("xor_8", vec![var("acc"), var("c")]))], Some(Box::new(Expr::Right(Box::new(site_expr(kind, "v")))))),
            });
            stmts.push(let_(Pat::id("r"), Ty::either(u8t.clone(), u8t.clone()), call(CallName::ForWhile("lp".into()), vec![var("x"), dec(5)])));
            stmts.push(let_(Pat::id("y"), u8t.clone(), call(CallName::UnwrapRight(Ty::U(8)), vec![var("r")])));
        }
        "nested-fns" => {
            fns.push(f_site("inner", kind));
            fns.push(FnDef { name: "outer".into(), params: vec![("w".into(), Ty::U(8))], ret: Some(Ty::U(8)), body: (vec![], Some(Box::new(fcall("inner", vec![fcall("inner", vec![var("w")])])))) });
            fns.push(f_site("dead", kind));
            stmts.push(let_(Pat::id("y"), u8t.clone(), fcall("outer", vec![var("x")])));
        }
        other => panic!("unknown context {other}"),
    }
    if let Some(k2) = kind2 {
        stmts.push(let_(Pat::id("z"), u8t.clone(), site_expr(k2, "y")));
        stmts.push(Stmt::Expr(assert_(h.eq_call(&u8t, var("z"), var("z")))));
    }
    stmts.push(Stmt::Expr(assert_(h.eq_call(&u8t, var("y"), Expr::Witness("EXPECT".into())))));
    let mut items: Vec<Item> = h.fns.into_iter().map(Item::Fn).collect();
    items.extend(fns.into_iter().map(Item::Fn));
    items.push(Item::Fn(FnDef { name: "main".into(), params: vec![], ret: None, body: (stmts, None) }));
    Program { items }
}

fn strip_ws(s: &str) -> String {
    s.chars().filter(|c| !c.is_whitespace()).collect()
}

pub fn kind_of(n: &TrackedCallName) -> &'static str {
    match n {
        TrackedCallName::Assert => "assert",
        TrackedCallName::Panic => "panic",
        TrackedCallName::Jet => "jet",
        TrackedCallName::UnwrapLeft(_) => "unwrap_left",
        TrackedCallName::UnwrapRight(_) => "unwrap_right",
        TrackedCallName::Unwrap => "unwrap",
        TrackedCallName::Debug(_) => "dbg",
    }
}

pub fn markers(compiled: &simfony::CompiledProgram) -> Vec<Cmr> {
    use simfony::simplicity::dag::{DagLike, InternalSharing};
    use simfony::simplicity::node::Inner;
    let commit = compiled.commit();
    let fail = Cmr::fail(FailEntropy::ZERO);
    let mut out = vec![];
    for item in commit.as_ref().post_order_iter::<InternalSharing>() {
        if let Inner::AssertL(_, cmr) = item.node.inner() {
            if *cmr != fail {
                out.push(*cmr);
            }
        }
    }
    out
}

fn reachable_fns(p: &Program) -> BTreeSet<String> {
    let mut reach = BTreeSet::new();
    let mut work = vec!["main".to_string()];
    while let Some(f) = work.pop() {
        if !reach.insert(f.clone()) {
            continue;
        }
        for it in &p.items {
            if let Item::Fn(fd) = it {
                if fd.name == f {
                    let mut called = BTreeSet::new();
                    let body = Expr::Block(fd.body.0.clone(), fd.body.1.clone());
                    gen::called_fns(&body, &mut called);
                    work.extend(called);
                }
            }
        }
    }
    reach
}

/// Check marker <-> call-site correspondence for one program in one layout.
fn check_sites(rep: &Report, prog: &Program, opts: RenderOpts, layout: Layout, label: &str) {
    let toks = Tokens::program(prog, opts);
    let (text, ranges) = join(&toks.toks, layout);
    rep.state();
    rep.transition(1);
    rep.eval(2);
    let replay = |what: &str| json!({"kind": "debug_sites", "program": text, "what": what, "label": label});
    // a twin with the same layout (every call site at the same line and column, of the same kind) but other call
    // texts is compiled with debug symbols on this thread immediately before the program under test: nothing of it
    // may show up in the symbols of the program under test
    let twin = text.replace("jet::eq_8", "jet::le_8").replace("jet::xor_8", "jet::and_8");
    if twin != text {
        rep.eval(1);
        if drive::build(&twin, simfony::Arguments::default(), true).is_ok() {
            rep.class("same-layout-twin-compiled-first");
        }
    }
    let built = match drive::build(&text, simfony::Arguments::default(), true) {
        Ok(b) => b,
        Err(o) => {
            rep.violation("C14:not-compiled", format!("{label}: call-site program not compiled with debug symbols: {o:?}"), json!({"kind": "compile", "program": text, "expect": "accept", "observed": "reject"}));
            return;
        }
    };
    let plain = match drive::build(&text, simfony::Arguments::default(), false) {
        Ok(b) => b,
        Err(_) => return,
    };
    let reach = reachable_fns(prog);
    let sites: Vec<(&'static str, String)> = toks
        .calls
        .iter()
        .filter(|c| reach.contains(&c.in_fn))
        .map(|c| {
            let (s, e) = (ranges[c.tok_start].0, ranges[c.tok_end - 1].1);
            (c.kind, strip_ws(&text[s..e]))
        })
        .collect();
    rep.trace(1);
    let ms = match drive::guard(|| markers(&built.compiled)) {
        Ok(m) => m,
        Err(p) => {
            rep.violation(format!("C14:panic:{}", drive::panic_site(&p)), format!("{label}: walking commit() panicked: {p}"), replay("panic"));
            return;
        }
    };
    if !drive::guard(|| markers(&plain.compiled)).map(|m| m.is_empty()).unwrap_or(false) {
        rep.violation("C14:markers-in-plain-build", format!("{label}: the build without debug symbols contains debug markers"), replay("plain build has markers"));
    }
    let distinct: BTreeSet<[u8; 32]> = ms.iter().map(|c| c.to_byte_array()).collect();
    let symbols = built.compiled.debug_symbols();
    let mut ok = true;
    for m in &ms {
        match symbols.get(m) {
            None => {
                ok = false;
                rep.violation("C14:marker-unresolved", format!("{label}: an embedded marker does not resolve through debug_symbols()"), replay("unresolved marker"));
            }
            Some(tc) => {
                let k = kind_of(tc.name());
                let t = strip_ws(tc.text());
                let hit = sites.iter().any(|(sk, st)| {
                    *sk == k && (*st == t || (k == "dbg" && st.strip_prefix("dbg!(").and_then(|x| x.strip_suffix(')')).map_or(false, |inner| inner == t)))
                });
                if !hit {
                    ok = false;
                    rep.violation(
                        format!("C14:marker-wrong-call:{k}"),
                        format!("{label}: marker resolves to kind {k} text {:?}, which is no reachable call site of that kind (sites: {:?})", tc.text(), sites),
                        replay("marker resolves to wrong text/kind"),
                    );
                }
            }
        }
    }
    if distinct.len() != sites.len() {
        ok = false;
        rep.violation(
            if distinct.len() < sites.len() { "C14:fewer-markers-than-call-sites" } else { "C14:more-markers-than-call-sites" },
            format!("{label}: {} distinct markers embedded for {} reachable tracked call sites", distinct.len(), sites.len()),
            replay("marker count"),
        );
    }
    rep.class(if ok { "sites-ok" } else { "sites-mismatch" });
    if sites.len() >= 2 {
        rep.nontrivial(1);
    }
    // behaviour neutrality + dbg! value reconstruction on every witness value of a small alphabet
    for x in [0u128, 1, 2, 0x80, 0xfe, 0xff, 0x5a] {
        let w_no_expect = vec![("X".to_string(), Val::u(8, x), Ty::U(8))];
        let wmap: HashMap<String, Val> = [("X".to_string(), Val::u(8, x)), ("EXPECT".to_string(), Val::u(8, 0))].into_iter().collect();
        // R2 with tracing: find y by evaluating main's statements up to the EXPECT assert
        let no_params = HashMap::new();
        let Ok(mut ev) = Evaluator::new(prog, &wmap, &no_params) else { return };
        ev.record_trace = true;
        let r = ev.run_main();
        let _ = r; // main may fail at the EXPECT assert; the trace up to there is what matters
        // dbg events
        for e in ev.trace.iter().filter(|e| e.kind == "dbg") {
            rep.eval(1);
            rep.trace(1);
            let sv = drive::sim_val(&e.val, &e.ty);
            let st = StructuralValue::from(&sv);
            let mut any = false;
            let mut good = false;
            for m in &ms {
                if let Some(tc) = symbols.get(m) {
                    if let TrackedCallName::Debug(t) = tc.name() {
                        if *t == drive::sim_ty(&e.ty) {
                            any = true;
                            match drive::guard(|| tc.map_value(&st)) {
                                Ok(Some(simfony::either::Either::Right(dv))) if *dv.value() == sv => good = true,
                                _ => {}
                            }
                        }
                    }
                }
            }
            if any && !good {
                rep.violation("C14:dbg-value-reconstruction", format!("{label}: dbg! value {} : {} is not reconstructed by map_value", render_expr(&refmodel::val_expr(&e.val, &e.ty)), e.ty.render()), replay("dbg value"));
            }
            if !any {
                rep.violation("C14:dbg-site-without-symbol", format!("{label}: executed dbg! at type {} has no debug symbol of that type", e.ty.render()), replay("dbg symbol missing"));
            }
        }
        // both builds, EXPECT = each of two values: verdicts must agree
        for expect in [x, x ^ 1] {
            let mut w = w_no_expect.clone();
            w.push(("EXPECT".to_string(), Val::u(8, expect), Ty::U(8)));
            rep.eval(2);
            rep.trace(1);
            let (a, b) = drive::DUMMY.with(|env| (drive::run(&plain, drive::witness_map(&w), env), drive::run(&built, drive::witness_map(&w), env)));
            rep.class(if a.class() == "success" { "run-success" } else { "run-failure" });
            if a.class() != b.class() {
                rep.violation("C14:debug-build-changes-verdict", format!("{label}: plain build {a:?}, debug build {b:?}"), run_replay(&text, &w, true, a.class(), b.class()));
            }
        }
    }
}

pub fn run(rep: &Report) -> i32 {
    let quick = rep.is_quick();
    // (A) call-site family
    let mut kinds: Vec<&str> = KINDS.to_vec();
    kinds.extend(["combo", "twins", "dbg-tuple", "dbg-either-same-sides"]);
    let mut jobs: Vec<(String, Option<String>, String, usize, usize)> = vec![];
    let opt_sets = 3usize;
    for k in &kinds {
        for c in CONTEXTS {
            for (li, _) in ALL_LAYOUTS.iter().enumerate() {
                for oi in 0..opt_sets {
                    if quick && oi > 0 && li > 1 {
                        continue;
                    }
                    jobs.push((k.to_string(), None, c.to_string(), li, oi));
                }
            }
        }
    }
    for k in WIDE_KINDS {
        for c in ["main", "fn-once"] {
            for li in [0usize, 3, 8] {
                jobs.push((k.to_string(), None, c.to_string(), li.min(ALL_LAYOUTS.len() - 1), 0));
            }
        }
    }
    // pairs of kinds (second site in main after the first context)
    for k in &kinds {
        for k2 in &kinds {
            for c in if quick { &CONTEXTS[..3] } else { &CONTEXTS[..] } {
                for li in if quick { vec![0usize, 1] } else { (0..ALL_LAYOUTS.len()).collect() } {
                    jobs.push((k.to_string(), Some(k2.to_string()), c.to_string(), li, 0));
                }
            }
        }
    }
    rep.set("bounds", json!({"call_site_programs": jobs.len(), "kinds": kinds, "wide_kinds": WIDE_KINDS, "contexts": CONTEXTS, "layouts": ALL_LAYOUTS.iter().map(|l| format!("{l:?}")).collect::<Vec<_>>(), "family_programs": "C01 family A@1, up to 8 witness assignments each, both flags"}));
    par_for(&jobs, rep, 4, |i, (k, k2, c, li, oi)| {
        let prog = site_program(k, k2.as_deref(), c);
        let opts = match oi {
            0 => RenderOpts::default(),
            1 => RenderOpts { trailing_commas: true, explicit_unit_ret: true, arms_as_blocks: true, paren_args: false },
            _ => RenderOpts { trailing_commas: false, explicit_unit_ret: false, arms_as_blocks: false, paren_args: true },
        };
        let label = format!("kind={k}{} ctx={c} layout={:?} opts={oi}", k2.as_ref().map(|x| format!("+{x}")).unwrap_or_default(), ALL_LAYOUTS[*li]);
        check_sites(rep, &prog, opts, ALL_LAYOUTS[*li], &label);
        if i % 173 == 1 || rep.no_sample_yet() {
            rep.sample(4, || json!({"label": label, "program": prog.render_with(RenderOpts::default(), ALL_LAYOUTS[*li])}));
        }
    });
    // (B) the term family with both flags: equal verdicts
    let fams = c01::families(quick);
    let (jobs2, fns, transitions, _) = c01::enumerate(&fams[..1], None);
    rep.transition(transitions);
    par_for(&jobs2, rep, 16, |_, job| {
        let fam = &fams[job.fam].1;
        let free = gen::free_typed(&job.expr, &fam.universe);
        let extra = gen::fns_for(&job.expr, &fns[job.fam]);
        let prog = gen::wrap_term(&job.expr, &job.ty, &free, &extra);
        let text = prog.render();
        rep.state();
        rep.eval(2);
        let (Ok(plain), Ok(dbg)) = (drive::build(&text, simfony::Arguments::default(), false), drive::build(&text, simfony::Arguments::default(), true)) else {
            rep.class("family-member-not-compiled(skipped)");
            return;
        };
        // marker count == tracked call sites reachable (main + called fns) also on family members
        let toks = Tokens::program(&prog, RenderOpts::default());
        let reach = reachable_fns(&prog);
        let n_sites = toks.calls.iter().filter(|c| reach.contains(&c.in_fn)).count();
        if let Ok(ms) = drive::guard(|| markers(&dbg.compiled)) {
            let distinct: BTreeSet<[u8; 32]> = ms.iter().map(|c| c.to_byte_array()).collect();
            rep.trace(1);
            if distinct.len() != n_sites {
                rep.violation("C14:family-marker-count", format!("{} distinct markers for {} reachable tracked call sites in a family program", distinct.len(), n_sites), json!({"kind": "debug_sites", "program": text, "what": "marker count"}));
            }
        }
        let (lists, _) = value_lists(&free, 8);
        let sizes: Vec<usize> = lists.iter().map(|l| l.len()).collect();
        product(&sizes, |idx| {
            let mut w: Vec<(String, Val, Ty)> = free.iter().enumerate().map(|(k, (n, t))| (gen::wit_name_for(n), lists[k][idx[k]].clone(), t.clone())).collect();
            // EXPECT: a fixed value of the type (both builds are compared with each other, not with R2)
            for ev in gen::vals(&job.ty, 2).into_iter().take(2) {
                w.push(("EXPECT".into(), ev, job.ty.clone()));
                rep.transition(1);
                rep.eval(2);
                rep.trace(1);
                let (a, b) = drive::DUMMY.with(|env| (drive::run(&plain, drive::witness_map(&w), env), drive::run(&dbg, drive::witness_map(&w), env)));
                if a.class() != b.class() {
                    rep.violation("C14:debug-build-changes-verdict", format!("plain build {a:?}, debug build {b:?} on term `{}`", render_expr(&job.expr)), run_replay(&text, &w, true, a.class(), b.class()));
                }
                w.pop();
            }
        });
    });
    // (D) unwrap_left / unwrap_right at sums whose sides have different types: the symbol's kind carries the type of
    // the call's argument, and map_value must hand back the argument value at exactly that type
    {
        let u = Ty::U;
        let sides: Vec<(Ty, Ty, Val, Val)> = vec![
            (u(8), u(32), Val::u(8, 7), Val::u(32, 70000)),
            (u(32), u(8), Val::u(32, 70000), Val::u(8, 7)),
            (u(8), Ty::Bool, Val::u(8, 200), Val::Bool(true)),
            (Ty::unit(), u(16), Val::unit(), Val::u(16, 300)),
            (Ty::tup(vec![u(8), u(16)]), Ty::opt(u(8)), Val::Tuple(vec![Val::u(8, 1), Val::u(16, 2)]), Val::Some(Box::new(Val::u(8, 3)))),
            (u(8), u(8), Val::u(8, 1), Val::u(8, 2)),
        ];
        let mut n = 0u64;
        for (l, r, lv, rv) in &sides {
            for left in [true, false] {
                let ety = Ty::either(l.clone(), r.clone());
                let (arg, argv, call_e, res_ty) = if left {
                    (Expr::Left(Box::new(refmodel::val_expr(lv, l))), Val::Left(Box::new(lv.clone())), CallName::UnwrapLeft(r.clone()), l.clone())
                } else {
                    (Expr::Right(Box::new(refmodel::val_expr(rv, r))), Val::Right(Box::new(rv.clone())), CallName::UnwrapRight(l.clone()), r.clone())
                };
                let stmts = vec![let_(Pat::id("e"), ety.clone(), arg), let_(Pat::id("v"), res_ty, call(call_e, vec![var("e")]))];
                let text = Program { items: vec![Item::Fn(FnDef { name: "main".into(), params: vec![], ret: None, body: (stmts, None) })] }.render();
                n += 1;
                rep.state();
                rep.transition(1);
                rep.eval(1);
                rep.trace(1);
                rep.nontrivial(1);
                let replay = |what: &str| json!({"kind": "unwrap_symbol", "program": text, "call": if left { "unwrap_left" } else { "unwrap_right" }, "argument_type": ety.render(), "observed_at_run_time": what});
                let built = match drive::build(&text, simfony::Arguments::default(), true) {
                    Ok(b) => b,
                    Err(o) => {
                        rep.violation("C14:site-program-not-compiled", format!("unwrap at {}: {o:?}", ety.render()), replay("not compiled"));
                        continue;
                    }
                };
                let want_kind = if left { "unwrap_left" } else { "unwrap_right" };
                let symbols = built.compiled.debug_symbols();
                let ms = drive::guard(|| markers(&built.compiled)).unwrap_or_default();
                let mut found = false;
                for m in &ms {
                    let Some(tc) = symbols.get(m) else { continue };
                    if kind_of(tc.name()) != want_kind {
                        continue;
                    }
                    found = true;
                    let payload = match tc.name() {
                        TrackedCallName::UnwrapLeft(t) | TrackedCallName::UnwrapRight(t) => t.clone(),
                        _ => unreachable!(),
                    };
                    if payload != drive::sim_ty(&ety) {
                        rep.violation("C14:unwrap-symbol-type", format!("{want_kind} at {}: the symbol says the argument has type {payload}", ety.render()), replay("wrong argument type in the symbol"));
                    }
                    let sv = drive::sim_val(&argv, &ety);
                    let st = StructuralValue::from(&sv);
                    let back = drive::guard(|| tc.map_value(&st));
                    let good = match &back {
                        Ok(Some(simfony::either::Either::Left(fc))) => match fc.name() {
                            simfony::debug::FallibleCallName::UnwrapLeft(v) | simfony::debug::FallibleCallName::UnwrapRight(v) => *v == sv,
                            _ => false,
                        },
                        _ => false,
                    };
                    if !good {
                        rep.violation("C14:unwrap-value-reconstruction", format!("{want_kind} at {}: map_value does not give back the argument {}", ety.render(), render_expr(&refmodel::val_expr(&argv, &ety))), replay("argument not reconstructed"));
                    }
                }
                if !found {
                    rep.violation("C14:site-without-marker", format!("{want_kind} at {}: no marker of that kind in the debug build", ety.render()), replay("no marker"));
                }
            }
        }
        rep.set("unwrap_symbol_programs", json!(n));
    }
    rep.finish(
        "states = call-site programs (kind x context x layout x render options) + family programs; non-trivial = programs with at least two reachable tracked call sites",
        &["call-site byte ranges come from the harness renderer; text comparison ignores whitespace", "reachable = main plus functions called (directly, via fold / for_while, transitively) from main"],
        true,
    )
}
