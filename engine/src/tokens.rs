//! Token machinery: lexer for source texts, token alphabet, single/double token edits, seed texts.

use crate::families;
use crate::gen;
use crate::lang::*;
use crate::props::c01;
use crate::report::Report;

/// The shipped example programs (name, text), read from /repo/examples at run time.
pub fn examples() -> Vec<(String, String)> {
    files_with_ext("simf")
}

pub fn files_with_ext(ext: &str) -> Vec<(String, String)> {
    let mut out = vec![];
    if let Ok(rd) = std::fs::read_dir("/repo/examples") {
        let mut paths: Vec<_> = rd.filter_map(|e| e.ok()).map(|e| e.path()).filter(|p| p.extension().map_or(false, |x| x == ext)).collect();
        paths.sort();
        for p in paths {
            if let Ok(t) = std::fs::read_to_string(&p) {
                out.push((p.file_name().unwrap().to_string_lossy().to_string(), t));
            }
        }
    }
    out
}

#[derive(Clone, Debug)]
pub struct Lexed {
    /// whitespace / comments before each token
    pub pre: Vec<String>,
    pub toks: Vec<String>,
    pub tail: String,
}

/// Split a text into words, numbers and punctuation, keeping the separating whitespace and comments.
pub fn lex(text: &str) -> Lexed {
    let cs: Vec<char> = text.chars().collect();
    let mut pre = vec![];
    let mut toks = vec![];
    let mut i = 0;
    let mut ws = String::new();
    while i < cs.len() {
        let c = cs[i];
        if c.is_whitespace() {
            ws.push(c);
            i += 1;
        } else if c == '/' && i + 1 < cs.len() && cs[i + 1] == '/' {
            while i < cs.len() && cs[i] != '\n' {
                ws.push(cs[i]);
                i += 1;
            }
        } else if c == '/' && i + 1 < cs.len() && cs[i + 1] == '*' {
            ws.push_str("/*");
            i += 2;
            while i < cs.len() && !(cs[i] == '*' && i + 1 < cs.len() && cs[i + 1] == '/') {
                ws.push(cs[i]);
                i += 1;
            }
            if i < cs.len() {
                ws.push_str("*/");
                i += 2;
            }
        } else {
            let start = i;
            if c.is_alphanumeric() || c == '_' {
                while i < cs.len() && (cs[i].is_alphanumeric() || cs[i] == '_') {
                    i += 1;
                }
            } else if c == '"' {
                // JSON string
                i += 1;
                while i < cs.len() && cs[i] != '"' {
                    if cs[i] == '\\' {
                        i += 1;
                    }
                    i += 1;
                }
                i = (i + 1).min(cs.len());
            } else if (c == ':' && cs.get(i + 1) == Some(&':')) || (c == '-' && cs.get(i + 1) == Some(&'>')) || (c == '=' && cs.get(i + 1) == Some(&'>')) {
                i += 2;
            } else {
                i += 1;
            }
            pre.push(std::mem::take(&mut ws));
            toks.push(cs[start..i].iter().collect());
        }
    }
    Lexed { pre, toks, tail: ws }
}

pub fn unlex(l: &Lexed) -> String {
    let mut s = String::new();
    for (p, t) in l.pre.iter().zip(&l.toks) {
        s.push_str(p);
        s.push_str(t);
    }
    s.push_str(&l.tail);
    s
}

/// Token alphabet.  `huge` adds size tokens >= 2^20 (allocation blow-ups: C06 only, in isolated workers).
pub fn alphabet(quick: bool, huge: bool) -> Vec<String> {
    let mut v: Vec<&str> = vec![
        // keywords and punctuation
        "fn", "let", "match", "type", "mod", "const", "(", ")", "{", "}", "[", "]", "<", ">", ",", ";", ":", "::", "->", "=>", "=", "!", "_",
        // builtin names
        "u8", "u1", "u256", "bool", "Either", "Option", "List", "true", "false", "None", "Some", "Left", "Right", "witness", "param", "jet", "main", "unwrap", "unwrap_left", "assert", "panic", "dbg", "into", "fold", "for_while", "is_none", "list",
        // identifiers and literals
        "a", "x1", "0", "1", "255", "256", /* one above usize::MAX: never parses as a size, so it allocates nothing */ "18446744073709551616", "0x", "0b", "0x_", "0b_", "__", "1_", "_1", "00", "0x0", "0b2", "0xg", "0xff", "0b1",
        // whitespace-ish and non-ASCII
        "\r", "\n", "\t", "é", "嗨", "//", "/*", "*/",
    ];
    if !quick {
        v.extend([
            "Ctx8", "Pubkey", "u2", "u4", "u16", "u32", "u64", "u128", "unwrap_right", "eq_8", "verify", "2", "3", "4", "65536",
            "\"", "\\", "'", "#", "@", "$", "%", "&", "*", "+", "-", "/", ".", "?", "|", "~", "^", "\u{0}", "\u{feff}", "\u{202e}",
        ]);
    }
    let mut out: Vec<String> = v.into_iter().map(|s| s.to_string()).collect();
    if !quick {
        for n in [20usize, 39, 78, 79, 400] {
            out.push("9".repeat(n));
        }
        out.push(format!("0x{}", "f".repeat(65)));
        out.push(format!("0b{}", "1".repeat(257)));
    }
    if huge {
        // sizes whose allocation fails at once under the workers' address-space limit; the merely slow ones
        // (2^20, 2^24 elements) only in the thorough tier, where the watchdog budget allows them
        for s in ["1000000000000", "2147483648", "9223372036854775808"] {
            out.push(s.to_string());
        }
        if !quick {
            // every number >= 2^20 is "huge": as an array size / list bound it makes the library materialise that many
            // elements (D6), so these tokens are only ever used inside C06's isolated, memory-limited workers
            for s in ["1048576", "16777216", "4294967296", "18446744073709551615", "18446744073709551616", "1000000000000000000000000000000"] {
                out.push(s.to_string());
            }
        }
    }
    out
}

/// All single-token edits: delete / duplicate / replace-by-each / insert-each-before, at every position.
pub fn single_edits(l: &Lexed, alphabet: &[String], f: &mut dyn FnMut(String, &str)) {
    let n = l.toks.len();
    for i in 0..n {
        // delete
        let mut m = l.clone();
        m.toks[i] = String::new();
        f(unlex(&m), "delete");
        // duplicate
        let mut m = l.clone();
        m.toks[i] = format!("{} {}", l.toks[i], l.toks[i]);
        f(unlex(&m), "duplicate");
        for a in alphabet {
            if *a != l.toks[i] {
                let mut m = l.clone();
                m.toks[i] = a.clone();
                f(unlex(&m), "replace");
            }
            let mut m = l.clone();
            m.toks[i] = format!("{} {}", a, l.toks[i]);
            f(unlex(&m), "insert");
        }
    }
    for a in alphabet {
        let mut m = l.clone();
        m.tail = format!(" {}{}", a, l.tail);
        f(unlex(&m), "append");
    }
}

/// Maximum bracket nesting depth of a text (any of ( [ { <), ignoring nothing: a cheap over-approximation.
pub fn bracket_depth(text: &str) -> usize {
    let mut d: i64 = 0;
    let mut m: i64 = 0;
    for c in text.chars() {
        match c {
            '(' | '[' | '{' | '<' => {
                d += 1;
                m = m.max(d);
            }
            ')' | ']' | '}' | '>' => d = (d - 1).max(0),
            _ => {}
        }
    }
    m as usize
}

/// A kitchen-sink program in which every expression / item form occurs once (rendered from the harness AST).
pub fn kitchen_sink() -> Vec<(String, String)> {
    // (the wide / deep programs are left out: token edits do not depend on program size)
    families::static_family().into_iter().filter(|(n, _)| !families::is_large(n)).map(|(n, p)| (n, p.render())).collect()
}

/// Seed program texts: family samples covering every form, the static family, the shipped examples.
pub fn program_seeds(quick: bool) -> Vec<(String, String)> {
    let mut out = kitchen_sink();
    let fams = c01::families(true);
    let (jobs, fns, _, _) = c01::enumerate(&fams[..1], None);
    let stride = if quick { 997 } else { 211 };
    for (i, job) in jobs.iter().enumerate().step_by(stride) {
        let fam = &fams[job.fam].1;
        let free = gen::free_typed(&job.expr, &fam.universe);
        let extra = gen::fns_for(&job.expr, &fns[job.fam]);
        out.push((format!("F-A#{i}"), gen::wrap_term(&job.expr, &job.ty, &free, &extra).render()));
    }
    out.extend(examples());
    out
}

pub fn witness_module_seeds() -> Vec<(String, String)> {
    vec![
        ("wit-module".into(), "mod witness {\n    const A: u8 = 5;\n    const B: (u16, bool) = (0xbeef, true);\n    const C: List<u8, 4> = list![1, 2];\n    const D: [u8; 2] = 0x0102;\n    const E: Either<u8, Option<u1>> = Right(Some(1));\n}\n".into()),
        ("wit-module-nonascii".into(), "mod witness { /* ööööö語🦀 */ const A: u8 = /* öööö */ 5; /* 語語語 */ const B: (u16, bool) = (/* 🦀🦀🦀🦀 */ 7, true); }\n".into()),
        // both modules, values written with blocks and matches (scope-opening constructs), and an item after them:
        // whichever module an entry point does not ask for comes first in one of the two files
        ("modules-scoped-param-first".into(), "mod param {\n    const N: u8 = { let x: u8 = 25; x };\n    const B: bool = match true { true => false, false => true, };\n}\nmod witness {\n    const A: u8 = { let y: u8 = 5; y };\n}\nfn main() {}\n".into()),
        ("modules-scoped-witness-first".into(), "mod witness {\n    const A: u8 = { let y: u8 = 5; y };\n    const C: bool = match false { true => false, false => true, };\n}\nmod param {\n    const N: u8 = { let x: u8 = 25; x };\n}\nfn main() {}\n".into()),
        ("param-module".into(), "mod param {\n    const KEY: u256 = 0x79be667ef9dcbbac55a06295ce870b07029bfcdb2dce28d959f2815b16f81798;\n    const N: u32 = 1_000;\n}\nmod witness {}\n".into()),
    ]
}

pub fn json_seeds() -> Vec<(String, String)> {
    let mut out = vec![("json-nonascii".to_string(), "{ \"A\": { \"value\": \"/* ööööö語🦀 */ (1, /* öööö */ 2)\", \"type\": \"/* 語語語 */ (u8, u8)\" } }\n".to_string()), ("json-small".to_string(), "{\n    \"A\": {\n        \"value\": \"Left(0x01)\",\n        \"type\": \"Either<u8, [u8; 2]>\"\n    },\n    \"B\": { \"value\": \"(1, true)\", \"type\": \"(u8, bool)\" }\n}\n".to_string())];
    for (n, t) in files_with_ext("wit").into_iter().take(3) {
        out.push((n, t));
    }
    for (n, t) in files_with_ext("args").into_iter().take(1) {
        out.push((n, t));
    }
    out
}

/// Edits at one token position (or the append position when `pos == toks.len()`).
pub fn edits_at(l: &Lexed, pos: usize, alphabet: &[String], f: &mut dyn FnMut(String, &str)) {
    let n = l.toks.len();
    if pos >= n {
        for a in alphabet {
            let mut m = l.clone();
            m.tail = format!(" {}{}", a, l.tail);
            f(unlex(&m), &format!("append[{a:?}]"));
        }
        return;
    }
    let i = pos;
    let old = &l.toks[i];
    let mut m = l.clone();
    m.toks[i] = String::new();
    f(unlex(&m), &format!("delete[{old:?}]"));
    let mut m = l.clone();
    m.toks[i] = format!("{} {}", l.toks[i], l.toks[i]);
    f(unlex(&m), &format!("duplicate[{old:?}]"));
    for a in alphabet {
        if *a != l.toks[i] {
            let mut m = l.clone();
            m.toks[i] = a.clone();
            f(unlex(&m), &format!("replace[{old:?}->{a:?}]"));
        }
        let mut m = l.clone();
        m.toks[i] = format!("{} {}", a, l.toks[i]);
        f(unlex(&m), &format!("insert[{a:?} before {old:?}]"));
    }
}

/// Run `f(text, origin)` for every single-token edit of every seed, in parallel over (seed, position).
pub fn par_single_edits(rep: &Report, seeds: &[(String, String)], alphabet: &[String], f: &(dyn Fn(&str, &str) + Sync)) {
    let lexed: Vec<Lexed> = seeds.iter().map(|s| lex(&s.1)).collect();
    let mut jobs: Vec<(usize, usize)> = vec![];
    for (si, l) in lexed.iter().enumerate() {
        for p in 0..=l.toks.len() {
            jobs.push((si, p));
        }
    }
    crate::explore::par_for(&jobs, rep, 8, |_, &(si, p)| {
        edits_at(&lexed[si], p, alphabet, &mut |m, op| {
            f(&m, &format!("token-{op}@{p} on {}", seeds[si].0));
        });
    });
}

/// Token-level sources for C03: accepted token mutants of the shipped examples and of the kitchen-sink programs.
pub fn c03_sources(rep: &Report, quick: bool, f: &(dyn Fn(&str, &str) + Sync)) {
    let alpha = alphabet(true, false);
    let mut seeds = kitchen_sink();
    let mut ex = examples();
    ex.sort_by_key(|e| e.1.len());
    let take = if quick { 3 } else { ex.len() };
    seeds.extend(ex.into_iter().take(take));
    par_single_edits(rep, &seeds, &alpha, &|m, origin| {
        if bracket_depth(m) <= 12 {
            f(m, origin);
        }
    });
}
