//! Token machinery: lexer for shipped examples, token alphabet, single/double token edits.

use crate::report::Report;

pub fn c03_sources(_rep: &Report, _quick: bool, _f: &dyn Fn(&str, &str)) {}

/// The shipped example programs (name, text), read from /repo/examples at run time.
pub fn examples() -> Vec<(String, String)> {
    let mut out = vec![];
    if let Ok(rd) = std::fs::read_dir("/repo/examples") {
        let mut paths: Vec<_> = rd.filter_map(|e| e.ok()).map(|e| e.path()).filter(|p| p.extension().map_or(false, |x| x == "simf")).collect();
        paths.sort();
        for p in paths {
            if let Ok(t) = std::fs::read_to_string(&p) {
                out.push((p.file_name().unwrap().to_string_lossy().to_string(), t));
            }
        }
    }
    out
}
