//! Token machinery: lexer for shipped examples, token alphabet, single/double token edits.

use crate::report::Report;

pub fn c03_sources(_rep: &Report, _quick: bool, _f: &dyn Fn(&str, &str)) {}
