//! Exhaustive enumerators: values, patterns, eq-helpers, program wrapper, the term family F.

use crate::big::Big;
use crate::lang::*;
use crate::refmodel::{same_layout, zero_val};
use std::collections::{BTreeMap, BTreeSet, HashMap};

// =============================================================================================
// values

/// Number of values of a resolved type (saturating).
pub fn count_vals(ty: &Ty) -> u128 {
    match ty {
        Ty::Bool => 2,
        Ty::U(n) => {
            if *n >= 127 {
                u128::MAX
            } else {
                1u128 << n
            }
        }
        Ty::Tuple(ts) => ts.iter().fold(1u128, |a, t| a.saturating_mul(count_vals(t))),
        Ty::Array(t, n) => {
            let c = count_vals(t);
            (0..*n).fold(1u128, |a, _| a.saturating_mul(c))
        }
        Ty::List(t, n) => {
            let c = count_vals(t);
            let mut total = 0u128;
            let mut p = 1u128;
            for _ in 0..*n {
                total = total.saturating_add(p);
                p = p.saturating_mul(c);
            }
            total
        }
        Ty::Option(t) => count_vals(t).saturating_add(1),
        Ty::Either(a, b) => count_vals(a).saturating_add(count_vals(b)),
        Ty::Alias(_) => panic!("count_vals alias"),
    }
}

/// All values of a resolved type, in a fixed order (only call when count_vals is small).
pub fn all_vals(ty: &Ty) -> Vec<Val> {
    match ty {
        Ty::Bool => vec![Val::Bool(false), Val::Bool(true)],
        Ty::U(n) => (0..(1u128 << n)).map(|v| Val::u(*n, v)).collect(),
        Ty::Tuple(ts) => {
            let parts: Vec<Vec<Val>> = ts.iter().map(all_vals).collect();
            cart(&parts).into_iter().map(Val::Tuple).collect()
        }
        Ty::Array(_, 0) => vec![Val::Array(vec![])],
        Ty::Array(t, n) => {
            let el = all_vals(t);
            let parts: Vec<Vec<Val>> = (0..*n).map(|_| el.clone()).collect();
            cart(&parts).into_iter().map(Val::Array).collect()
        }
        Ty::List(t, n) => {
            let el = all_vals(t);
            let mut out = vec![];
            for len in 0..*n {
                let parts: Vec<Vec<Val>> = (0..len).map(|_| el.clone()).collect();
                out.extend(cart(&parts).into_iter().map(Val::List));
            }
            out
        }
        Ty::Option(t) => std::iter::once(Val::None).chain(all_vals(t).into_iter().map(|v| Val::Some(Box::new(v)))).collect(),
        Ty::Either(a, b) => all_vals(a).into_iter().map(|v| Val::Left(Box::new(v))).chain(all_vals(b).into_iter().map(|v| Val::Right(Box::new(v)))).collect(),
        Ty::Alias(_) => panic!("all_vals alias"),
    }
}

pub fn cart<T: Clone>(parts: &[Vec<T>]) -> Vec<Vec<T>> {
    let mut out: Vec<Vec<T>> = vec![vec![]];
    for p in parts {
        let mut next = Vec::with_capacity(out.len() * p.len());
        for prefix in &out {
            for x in p {
                let mut v = prefix.clone();
                v.push(x.clone());
                next.push(v);
            }
        }
        out = next;
    }
    out
}

/// Asymmetric byte pattern 0x0102030405... truncated to n bits (n >= 8), or small odd constants below.
pub fn pattern_uint(n: u16) -> Big {
    match n {
        1 => Big::from_u128(1),
        2 => Big::from_u128(2),
        4 => Big::from_u128(0b0110),
        _ => {
            let bytes: Vec<u8> = (0..(n / 8) as usize).map(|i| (0xa1u8).wrapping_add((i as u8).wrapping_mul(0x13))).collect();
            Big::from_bytes(&bytes)
        }
    }
}

/// Boundary alphabet of an integer width, most interesting first.
pub fn boundary_uint(n: u16) -> Vec<Big> {
    let n_us = n as usize;
    let max = Big::pow2(n_us).sub(&Big::from_u128(1));
    let mut v = vec![pattern_uint(n), Big::zero(), max.clone(), Big::from_u128(1)];
    if n >= 2 {
        v.push(Big::pow2(n_us / 2));
        v.push(Big::pow2(n_us / 2).sub(&Big::from_u128(1)));
        v.push(max.sub(&Big::from_u128(1)));
        v.push(Big::from_u128(2));
        v.push(Big::pow2(n_us - 1));
    }
    let mut seen = BTreeSet::new();
    v.retain(|x| x.bit_len() <= n_us && seen.insert(x.clone()));
    v
}

/// i-th element of a fixed sequence of (mostly) distinct values of a type.
pub fn nth_val(ty: &Ty, i: usize) -> Val {
    match ty {
        Ty::Bool => Val::Bool(i % 2 == 1),
        Ty::U(n) => {
            if *n < 127 {
                Val::u(*n, (i as u128 + 1) % (1u128 << n))
            } else {
                Val::U(*n, pattern_uint(*n).add(&Big::from_u128(i as u128)))
            }
        }
        Ty::Tuple(ts) => Val::Tuple(ts.iter().enumerate().map(|(k, t)| nth_val(t, i + k)).collect()),
        Ty::Array(t, n) => Val::Array((0..*n).map(|k| nth_val(t, i * 7 + k)).collect()),
        Ty::List(t, n) => Val::List((0..(i % *n)).map(|k| nth_val(t, i + k)).collect()),
        Ty::Option(t) => {
            if i % 3 == 0 {
                Val::None
            } else {
                Val::Some(Box::new(nth_val(t, i)))
            }
        }
        Ty::Either(a, b) => {
            if i % 2 == 0 {
                Val::Left(Box::new(nth_val(a, i / 2)))
            } else {
                Val::Right(Box::new(nth_val(b, i / 2)))
            }
        }
        Ty::Alias(_) => panic!("nth_val alias"),
    }
}

/// Interesting list lengths for a bound: 0, 1, 2, each block boundary 2^j and its neighbours, bound-1.
pub fn list_lengths(bound: usize) -> Vec<usize> {
    let mut s = BTreeSet::new();
    for l in [0usize, 1, 2, bound - 1] {
        if l < bound {
            s.insert(l);
        }
    }
    let mut p = 2;
    while p < bound {
        for l in [p - 1, p, p + 1] {
            if l < bound {
                s.insert(l);
            }
        }
        p *= 2;
    }
    s.into_iter().collect()
}

/// Boundary values of a type: a fixed finite alphabet, enumerated completely, at most about `cap` values.
pub fn boundary_vals(ty: &Ty, cap: usize) -> Vec<Val> {
    let cap = cap.max(2);
    if count_vals(ty) <= cap as u128 {
        return all_vals(ty);
    }
    let mut out: Vec<Val> = match ty {
        Ty::Bool => all_vals(ty),
        Ty::U(n) => boundary_uint(*n).into_iter().take(cap).map(|b| Val::U(*n, b)).collect(),
        Ty::Option(t) => std::iter::once(Val::None).chain(boundary_vals(t, cap - 1).into_iter().map(|v| Val::Some(Box::new(v)))).collect(),
        Ty::Either(a, b) => {
            let h = (cap / 2).max(1);
            boundary_vals(a, h).into_iter().map(|v| Val::Left(Box::new(v))).chain(boundary_vals(b, h).into_iter().map(|v| Val::Right(Box::new(v)))).collect()
        }
        Ty::Tuple(ts) => {
            // k values per component with k^n <= cap
            let n = ts.len().max(1);
            let mut k = 2usize;
            while (k + 1).pow(n as u32) <= cap {
                k += 1;
            }
            let parts: Vec<Vec<Val>> = ts.iter().map(|t| boundary_vals(t, k)).collect();
            cart(&parts).into_iter().map(Val::Tuple).collect()
        }
        Ty::Array(t, n) => {
            let el = boundary_vals(t, 3);
            let mut v = vec![];
            if *n <= 3 {
                let parts: Vec<Vec<Val>> = (0..*n).map(|_| el.clone()).collect();
                v.extend(cart(&parts).into_iter().map(Val::Array));
            } else {
                for e in &el {
                    v.push(Val::Array(vec![e.clone(); *n]));
                }
                v.push(Val::Array((0..*n).map(|k| nth_val(t, k)).collect()));
                v.push(Val::Array((0..*n).map(|k| nth_val(t, *n - k)).collect()));
                // one-hot at first / last / block edges
                let z = zero_val(t);
                let hot = el.iter().find(|e| **e != z).cloned().unwrap_or_else(|| nth_val(t, 1));
                let mut pos = BTreeSet::new();
                pos.insert(0);
                pos.insert(*n - 1);
                let mut p = 1;
                while p < *n {
                    pos.insert(p);
                    pos.insert(p - 1);
                    p *= 2;
                }
                for i in pos {
                    let mut a = vec![z.clone(); *n];
                    a[i] = hot.clone();
                    v.push(Val::Array(a));
                }
            }
            v
        }
        Ty::List(t, n) => {
            let mut v = vec![];
            for len in list_lengths(*n) {
                v.push(Val::List((0..len).map(|k| nth_val(t, k)).collect()));
            }
            for e in boundary_vals(t, 3) {
                v.push(Val::List(vec![e.clone()]));
                if *n > 2 {
                    v.push(Val::List(vec![e.clone(), e]));
                }
            }
            v
        }
        Ty::Alias(_) => panic!("boundary alias"),
    };
    let mut seen = BTreeSet::new();
    out.retain(|x| seen.insert(x.clone()));
    out.truncate(cap.max(out.len().min(cap)));
    out
}

/// Values used for a witness variable of type ty: all when small, otherwise the boundary alphabet.
pub fn vals(ty: &Ty, cap: usize) -> Vec<Val> {
    if count_vals(ty) <= cap as u128 {
        all_vals(ty)
    } else {
        boundary_vals(ty, cap)
    }
}

// =============================================================================================
// patterns

/// All patterns for a (resolved) type with at most `max_leaves` leaves over the given names and `_`,
/// no repeated name.  Names are assigned in all injective ways.
pub fn patterns(ty: &Ty, names: &[&str], max_leaves: usize) -> Vec<Pat> {
    fn shapes(ty: &Ty, depth: usize) -> Vec<Pat> {
        // pattern skeletons with leaves marked Ignore
        let mut out = vec![Pat::Ignore];
        if depth == 0 {
            return out;
        }
        match ty {
            Ty::Tuple(ts) => {
                let parts: Vec<Vec<Pat>> = ts.iter().map(|t| shapes(t, depth - 1)).collect();
                out.extend(cart(&parts).into_iter().map(Pat::Tuple));
            }
            Ty::Array(t, n) if *n <= 4 => {
                let el = shapes(t, depth - 1);
                let parts: Vec<Vec<Pat>> = (0..*n).map(|_| el.clone()).collect();
                out.extend(cart(&parts).into_iter().map(Pat::Array));
            }
            _ => {}
        }
        out
    }
    fn leaves(p: &Pat) -> usize {
        match p {
            Pat::Tuple(v) | Pat::Array(v) => v.iter().map(leaves).sum(),
            _ => 1,
        }
    }
    fn assign(p: &Pat, choice: &[Option<usize>], k: &mut usize, names: &[&str]) -> Pat {
        match p {
            Pat::Tuple(v) => Pat::Tuple(v.iter().map(|q| assign(q, choice, k, names)).collect()),
            Pat::Array(v) => Pat::Array(v.iter().map(|q| assign(q, choice, k, names)).collect()),
            _ => {
                let c = choice[*k];
                *k += 1;
                match c {
                    None => Pat::Ignore,
                    Some(i) => Pat::Id(names[i].to_string()),
                }
            }
        }
    }
    let mut out = vec![];
    for sh in shapes(ty, 2) {
        let n = leaves(&sh);
        if n > max_leaves {
            continue;
        }
        // each leaf: ignore or one of names, injective
        let opts = names.len() + 1;
        let sizes = vec![opts; n];
        crate::explore::product(&sizes, |idx| {
            let choice: Vec<Option<usize>> = idx.iter().map(|&i| if i == 0 { None } else { Some(i - 1) }).collect();
            let mut used = BTreeSet::new();
            for c in choice.iter().flatten() {
                if !used.insert(*c) {
                    return;
                }
            }
            let mut k = 0;
            out.push(assign(&sh, &choice, &mut k, names));
        });
    }
    out
}

/// The type of each name bound by a pattern at a type (pattern assumed to match).
pub fn pattern_bindings(p: &Pat, ty: &Ty, out: &mut Vec<(String, Ty)>) {
    match (p, ty) {
        (Pat::Id(n), _) => out.push((n.clone(), ty.clone())),
        (Pat::Ignore, _) => {}
        (Pat::Tuple(ps), Ty::Tuple(ts)) => ps.iter().zip(ts).for_each(|(p, t)| pattern_bindings(p, t, out)),
        (Pat::Array(ps), Ty::Array(t, _)) => ps.iter().for_each(|p| pattern_bindings(p, t, out)),
        _ => {}
    }
}

// =============================================================================================
// eq helpers

#[derive(Default)]
pub struct Helpers {
    pub fns: Vec<FnDef>,
    names: BTreeSet<String>,
}

fn and_chain(mut es: Vec<Expr>) -> Expr {
    if es.is_empty() {
        return boolean(true);
    }
    let first = es.remove(0);
    if es.is_empty() {
        return first;
    }
    match_(first, (MPat::True, and_chain(es)), (MPat::False, boolean(false)))
}

impl Helpers {
    /// Ensure `eq_<T>` exists (T resolved); return its name.
    pub fn eq_fn(&mut self, ty: &Ty) -> String {
        let name = format!("eq_{}", ty.mangle());
        if self.names.contains(&name) {
            return name;
        }
        self.names.insert(name.clone());
        let a = || var("a");
        let b = || var("b");
        let body: (Vec<Stmt>, Option<Box<Expr>>) = match ty {
            Ty::Bool => (vec![], Some(Box::new(jet("eq_1", vec![cast(Ty::Bool, a()), cast(Ty::Bool, b())])))),
            Ty::U(n) if matches!(n, 1 | 8 | 16 | 32 | 64 | 256) => (vec![], Some(Box::new(jet(&format!("eq_{n}"), vec![a(), b()])))),
            Ty::U(n) => {
                let h = Ty::U(n / 2);
                let hn = self.eq_fn(&h);
                let pair = Ty::tup(vec![h.clone(), h.clone()]);
                (
                    vec![
                        let_(Pat::Tuple(vec![Pat::id("a1"), Pat::id("a0")]), pair.clone(), cast(ty.clone(), a())),
                        let_(Pat::Tuple(vec![Pat::id("b1"), Pat::id("b0")]), pair, cast(ty.clone(), b())),
                    ],
                    Some(Box::new(and_chain(vec![fcall(&hn, vec![var("a1"), var("b1")]), fcall(&hn, vec![var("a0"), var("b0")])]))),
                )
            }
            Ty::Tuple(ts) if ts.is_empty() => (vec![], Some(Box::new(boolean(true)))),
            Ty::Array(_, 0) => (vec![], Some(Box::new(boolean(true)))),
            Ty::Tuple(_) | Ty::Array(_, _) => {
                let (tys, is_arr): (Vec<Ty>, bool) = match ty {
                    Ty::Tuple(ts) => (ts.clone(), false),
                    Ty::Array(t, n) => (vec![(**t).clone(); *n], true),
                    _ => unreachable!(),
                };
                let pa: Vec<Pat> = (0..tys.len()).map(|i| Pat::Id(format!("a{i}"))).collect();
                let pb: Vec<Pat> = (0..tys.len()).map(|i| Pat::Id(format!("b{i}"))).collect();
                let mk = |v: Vec<Pat>| if is_arr { Pat::Array(v) } else { Pat::Tuple(v) };
                let conj: Vec<Expr> = tys
                    .iter()
                    .enumerate()
                    .map(|(i, t)| {
                        let f = self.eq_fn(t);
                        fcall(&f, vec![var(&format!("a{i}")), var(&format!("b{i}"))])
                    })
                    .collect();
                (vec![let_(mk(pa), ty.clone(), a()), let_(mk(pb), ty.clone(), b())], Some(Box::new(and_chain(conj))))
            }
            Ty::Option(t) => {
                let f = self.eq_fn(t);
                let e = match_(
                    a(),
                    (MPat::None, match_(b(), (MPat::None, boolean(true)), (MPat::Some("y".into(), (**t).clone()), boolean(false)))),
                    (
                        MPat::Some("x".into(), (**t).clone()),
                        match_(b(), (MPat::None, boolean(false)), (MPat::Some("y".into(), (**t).clone()), fcall(&f, vec![var("x"), var("y")]))),
                    ),
                );
                (vec![], Some(Box::new(e)))
            }
            Ty::Either(l, r) => {
                let fl = self.eq_fn(l);
                let fr = self.eq_fn(r);
                let e = match_(
                    a(),
                    (
                        MPat::Left("x".into(), (**l).clone()),
                        match_(b(), (MPat::Left("y".into(), (**l).clone()), fcall(&fl, vec![var("x"), var("y")])), (MPat::Right("y".into(), (**r).clone()), boolean(false))),
                    ),
                    (
                        MPat::Right("x".into(), (**r).clone()),
                        match_(b(), (MPat::Left("y".into(), (**l).clone()), boolean(false)), (MPat::Right("y".into(), (**r).clone()), fcall(&fr, vec![var("x"), var("y")]))),
                    ),
                );
                (vec![], Some(Box::new(e)))
            }
            Ty::List(t, n) => {
                let inner = if *n == 2 { Ty::opt((**t).clone()) } else { Ty::tup(vec![Ty::opt(Ty::arr((**t).clone(), n / 2)), Ty::list((**t).clone(), n / 2)]) };
                let f = self.eq_fn(&inner);
                (vec![], Some(Box::new(fcall(&f, vec![cast(ty.clone(), a()), cast(ty.clone(), b())]))))
            }
            Ty::Alias(n) => panic!("eq_fn on alias {n}"),
        };
        self.fns.push(FnDef { name: name.clone(), params: vec![("a".into(), ty.clone()), ("b".into(), ty.clone())], ret: Some(Ty::Bool), body });
        name
    }
    pub fn eq_call(&mut self, ty: &Ty, a: Expr, b: Expr) -> Expr {
        let f = self.eq_fn(ty);
        fcall(&f, vec![a, b])
    }
    pub fn add_fn(&mut self, f: FnDef) {
        if self.names.insert(f.name.clone()) {
            self.fns.push(f);
        }
    }
}

/// `let <name>: T = witness::<WNAME>; assert!(eq_T(name, name));`
pub fn anchored_witness(h: &mut Helpers, var_name: &str, wit_name: &str, ty: &Ty) -> Vec<Stmt> {
    vec![
        let_(Pat::id(var_name), ty.clone(), Expr::Witness(wit_name.to_string())),
        Stmt::Expr(assert_(h.eq_call(ty, var(var_name), var(var_name)))),
    ]
}

pub fn wit_name_for(var_name: &str) -> String {
    format!("W_{var_name}")
}

/// Wrap a term `e : ty` using witness-bound free variables `free` into a complete program that pins the
/// exact value of `e` through witness::EXPECT.
pub fn wrap_term(e: &Expr, ty: &Ty, free: &[(String, Ty)], extra_fns: &[FnDef]) -> Program {
    let mut h = Helpers::default();
    for f in extra_fns {
        h.add_fn(f.clone());
    }
    let mut stmts = vec![];
    for (n, t) in free {
        stmts.extend(anchored_witness(&mut h, n, &wit_name_for(n), t));
    }
    stmts.push(let_(Pat::id("r_"), ty.clone(), e.clone()));
    stmts.push(Stmt::Expr(assert_(h.eq_call(ty, var("r_"), Expr::Witness("EXPECT".into())))));
    let mut items: Vec<Item> = h.fns.into_iter().map(Item::Fn).collect();
    items.push(Item::Fn(FnDef { name: "main".into(), params: vec![], ret: None, body: (stmts, None) }));
    Program { items }
}

/// Replace every free variable of `free` that occurs exactly once in `e` (and is not re-bound anywhere in `e`) by
/// the direct expression `witness::<its witness name>`. Returns the new term, the free variables that still need
/// an anchored `let`, and the number of inlined witnesses. (Witness expressions are legal anywhere inside `main`,
/// which is where wrapped terms live.)
pub fn inline_single_use_witnesses(e: &Expr, free: &[(String, Ty)]) -> (Expr, Vec<(String, Ty)>, usize) {
    let mut bound = BTreeSet::new();
    bound_names(e, &mut bound);
    let mut out = e.clone();
    let mut rest = vec![];
    let mut inlined = 0;
    for (n, t) in free {
        let mut count = 0;
        crate::mutate::walk_expr(&mut out, &mut |x| {
            if matches!(x, Expr::Var(v) if v == n) {
                count += 1;
            }
        });
        if count == 1 && !bound.contains(n) {
            let w = wit_name_for(n);
            crate::mutate::walk_expr(&mut out, &mut |x| {
                if matches!(x, Expr::Var(v) if v == n) {
                    *x = Expr::Witness(w.clone());
                }
            });
            inlined += 1;
        } else {
            rest.push((n.clone(), t.clone()));
        }
    }
    (out, rest, inlined)
}

// =============================================================================================
// free variables / used functions

pub fn free_vars(e: &Expr, bound: &mut Vec<String>, out: &mut BTreeSet<String>) {
    match e {
        Expr::Lit(_) | Expr::Witness(_) | Expr::Param(_) | Expr::None => {}
        Expr::Var(n) => {
            if !bound.contains(n) {
                out.insert(n.clone());
            }
        }
        Expr::Paren(x) | Expr::Left(x) | Expr::Right(x) | Expr::Some(x) => free_vars(x, bound, out),
        Expr::Tuple(v) | Expr::Array(v) | Expr::List(v) => v.iter().for_each(|x| free_vars(x, bound, out)),
        Expr::Block(stmts, last) => {
            let mark = bound.len();
            for s in stmts {
                match s {
                    Stmt::Let(p, _, x) => {
                        free_vars(x, bound, out);
                        p.names(bound);
                    }
                    Stmt::Expr(x) => free_vars(x, bound, out),
                }
            }
            if let Some(x) = last {
                free_vars(x, bound, out);
            }
            bound.truncate(mark);
        }
        Expr::Match(s, a, b) => {
            free_vars(s, bound, out);
            for arm in [a, b] {
                let mark = bound.len();
                match &arm.pat {
                    MPat::Some(n, _) | MPat::Left(n, _) | MPat::Right(n, _) => bound.push(n.clone()),
                    _ => {}
                }
                free_vars(&arm.body, bound, out);
                bound.truncate(mark);
            }
        }
        Expr::Call(_, args) => args.iter().for_each(|x| free_vars(x, bound, out)),
    }
}

pub fn called_fns(e: &Expr, out: &mut BTreeSet<String>) {
    match e {
        Expr::Lit(_) | Expr::Witness(_) | Expr::Param(_) | Expr::None | Expr::Var(_) => {}
        Expr::Paren(x) | Expr::Left(x) | Expr::Right(x) | Expr::Some(x) => called_fns(x, out),
        Expr::Tuple(v) | Expr::Array(v) | Expr::List(v) => v.iter().for_each(|x| called_fns(x, out)),
        Expr::Block(stmts, last) => {
            for s in stmts {
                match s {
                    Stmt::Let(_, _, x) | Stmt::Expr(x) => called_fns(x, out),
                }
            }
            if let Some(x) = last {
                called_fns(x, out);
            }
        }
        Expr::Match(s, a, b) => {
            called_fns(s, out);
            called_fns(&a.body, out);
            called_fns(&b.body, out);
        }
        Expr::Call(name, args) => {
            match name {
                CallName::Fn(f) | CallName::Fold(f, _) | CallName::ForWhile(f) => {
                    out.insert(f.clone());
                }
                _ => {}
            }
            args.iter().for_each(|x| called_fns(x, out));
        }
    }
}

/// Which expression forms occur (for the "forms covered" evidence).
pub fn forms_of(e: &Expr, out: &mut BTreeSet<&'static str>) {
    let f = match e {
        Expr::Lit(Lit::Bool(_)) => "lit-bool",
        Expr::Lit(Lit::Dec(_)) => "lit-dec",
        Expr::Lit(Lit::Bin(_)) => "lit-bin",
        Expr::Lit(Lit::Hex(_)) => "lit-hex",
        Expr::Var(_) => "var",
        Expr::Witness(_) => "witness",
        Expr::Param(_) => "param",
        Expr::Paren(_) => "paren",
        Expr::Tuple(_) => "tuple",
        Expr::Array(_) => "array",
        Expr::List(_) => "list",
        Expr::Left(_) => "left",
        Expr::Right(_) => "right",
        Expr::None => "none",
        Expr::Some(_) => "some",
        Expr::Block(..) => "block",
        Expr::Match(..) => "match",
        Expr::Call(n, _) => match n {
            CallName::Jet(_) => "jet",
            CallName::UnwrapLeft(_) => "unwrap_left",
            CallName::UnwrapRight(_) => "unwrap_right",
            CallName::IsNone(_) => "is_none",
            CallName::Unwrap => "unwrap",
            CallName::Assert => "assert",
            CallName::Panic => "panic",
            CallName::Dbg => "dbg",
            CallName::Cast(_) => "cast",
            CallName::Fn(_) => "call",
            CallName::Fold(..) => "fold",
            CallName::ForWhile(_) => "for_while",
        },
    };
    out.insert(f);
    match e {
        Expr::Paren(x) | Expr::Left(x) | Expr::Right(x) | Expr::Some(x) => forms_of(x, out),
        Expr::Tuple(v) | Expr::Array(v) | Expr::List(v) => v.iter().for_each(|x| forms_of(x, out)),
        Expr::Block(stmts, last) => {
            for s in stmts {
                match s {
                    Stmt::Let(p, _, x) => {
                        out.insert(match p {
                            Pat::Id(_) => "pat-id",
                            Pat::Ignore => "pat-ignore",
                            Pat::Tuple(_) => "pat-tuple",
                            Pat::Array(_) => "pat-array",
                        });
                        forms_of(x, out)
                    }
                    Stmt::Expr(x) => {
                        out.insert("stmt-expr");
                        forms_of(x, out)
                    }
                }
            }
            if let Some(x) = last {
                forms_of(x, out);
            }
        }
        Expr::Match(s, a, b) => {
            out.insert(match a.pat {
                MPat::False | MPat::True => "match-bool",
                MPat::None | MPat::Some(..) => "match-option",
                _ => "match-either",
            });
            forms_of(s, out);
            forms_of(&a.body, out);
            forms_of(&b.body, out);
        }
        Expr::Call(_, args) => args.iter().for_each(|x| forms_of(x, out)),
        _ => {}
    }
}

// =============================================================================================
// the term family F

/// Configuration of one family instance.
#[derive(Clone)]
pub struct Family {
    /// the type universe (resolved types); variables exist for every universe type
    pub universe: Vec<Ty>,
    /// how many witness-bound variables per type (1 or 2)
    pub vars_per_type: usize,
    /// include the richer (more expensive) forms: fold / for_while / 3-ary calls
    pub loops: bool,
}

pub fn var_name(ty: &Ty, k: usize) -> String {
    format!("{}{}", if k == 0 { "x" } else { "y" }, ty.mangle())
}

/// prelude functions available to the family (defined on demand by name)
pub fn prelude_fn(name: &str) -> Option<FnDef> {
    // names: id_<T>, fst_<T>_<S>, snd_<T>_<S>, swap_<T>_<S>, mid3_<T>; konst_<T> handled by caller
    let _ = name;
    None
}

pub struct TermGen {
    pub fam: Family,
    memo: HashMap<(Ty, usize), Vec<Expr>>,
    /// function definitions referenced by generated terms, by name
    pub fns: BTreeMap<String, FnDef>,
    /// number of construction edges traversed
    pub transitions: u64,
}

fn in_universe(u: &[Ty], t: &Ty) -> bool {
    u.contains(t)
}

impl TermGen {
    pub fn new(fam: Family) -> Self {
        TermGen { fam, memo: HashMap::new(), fns: BTreeMap::new(), transitions: 0 }
    }

    fn def_fn(&mut self, f: FnDef) -> String {
        let n = f.name.clone();
        self.fns.entry(n.clone()).or_insert(f);
        n
    }

    /// constants of a type (small, notation-varied)
    pub fn constants(ty: &Ty) -> Vec<Expr> {
        match ty {
            Ty::Bool => vec![boolean(true), boolean(false)],
            Ty::U(n) => {
                let p = pattern_uint(*n);
                let mut v = vec![Expr::Lit(Lit::Dec(p.to_decimal()))];
                if *n >= 8 {
                    v.push(Expr::Lit(Lit::Hex(Big::pow2(*n as usize).sub(&Big::from_u128(2)).to_hex(*n as usize / 4))));
                } else {
                    v.push(Expr::Lit(Lit::Bin(Big::pow2(*n as usize).sub(&Big::from_u128(1)).to_bin(*n as usize))));
                }
                v
            }
            Ty::Tuple(ts) if ts.is_empty() => vec![Expr::Tuple(vec![])],
            Ty::Option(_) => vec![Expr::None],
            Ty::Array(t, n) if **t == Ty::U(8) && *n > 0 => {
                let bytes: Vec<u8> = (0..*n).map(|i| 0xc0u8.wrapping_add(i as u8 * 3)).collect();
                vec![Expr::Lit(Lit::Hex(bytes.iter().map(|b| format!("{b:02x}")).collect()))]
            }
            _ => vec![],
        }
    }

    pub fn leaves(&self, ty: &Ty) -> Vec<Expr> {
        let mut v = vec![];
        if in_universe(&self.fam.universe, ty) {
            for k in 0..self.fam.vars_per_type {
                v.push(var(&var_name(ty, k)));
            }
        }
        v.extend(Self::constants(ty));
        v
    }

    /// All terms of type `ty` with nesting depth <= d (memoised).
    pub fn terms(&mut self, ty: &Ty, d: usize) -> Vec<Expr> {
        if let Some(v) = self.memo.get(&(ty.clone(), d)) {
            return v.clone();
        }
        let out = if d == 0 {
            self.leaves(ty)
        } else {
            let mut out = self.terms(ty, d - 1);
            let mut seen: BTreeSet<String> = out.iter().map(render_expr).collect();
            let new = self.compound(ty, d - 1);
            self.transitions += new.len() as u64;
            for e in new {
                if seen.insert(render_expr(&e)) {
                    out.push(e);
                }
            }
            out
        };
        self.memo.insert((ty.clone(), d), out.clone());
        out
    }

    /// compound forms whose children have depth <= d
    fn compound(&mut self, ty: &Ty, d: usize) -> Vec<Expr> {
        let u = self.fam.universe.clone();
        let mut out: Vec<Expr> = vec![];
        // --- parenthesis
        for e in self.terms(ty, d) {
            if !matches!(e, Expr::Paren(_)) {
                out.push(Expr::Paren(Box::new(e)));
            }
        }
        // --- constructors
        // n-ary constructors: the full product of children at depth 0; above that a "spine": one child ranges over
        // all terms of the lower depth while the others range over the first two leaves (sum instead of product)
        let nary = |this: &mut Self, tys: Vec<Ty>| -> Vec<Vec<Expr>> {
            if d == 0 || tys.len() <= 1 {
                let parts: Vec<Vec<Expr>> = tys.iter().map(|t| this.terms(t, d)).collect();
                return cart(&parts);
            }
            let mut out = vec![];
            let leaves: Vec<Vec<Expr>> = tys.iter().map(|t| this.leaves(t).into_iter().take(2).collect()).collect();
            for i in 0..tys.len() {
                let mut parts = leaves.clone();
                parts[i] = this.terms(&tys[i], d);
                out.extend(cart(&parts));
            }
            out
        };
        match ty {
            Ty::Tuple(ts) if !ts.is_empty() => {
                out.extend(nary(self, ts.clone()).into_iter().map(Expr::Tuple));
            }
            Ty::Array(t, n) if *n > 0 && *n <= 4 => {
                out.extend(nary(self, vec![(**t).clone(); *n]).into_iter().map(Expr::Array));
            }
            Ty::Array(_, 0) => out.push(Expr::Array(vec![])),
            Ty::List(t, n) => {
                for len in 0..(*n).min(4) {
                    out.extend(nary(self, vec![(**t).clone(); len]).into_iter().map(Expr::List));
                }
            }
            Ty::Option(t) => {
                out.extend(self.terms(t, d).into_iter().map(|e| Expr::Some(Box::new(e))));
            }
            Ty::Either(a, b) => {
                out.extend(self.terms(a, d).into_iter().map(|e| Expr::Left(Box::new(e))));
                out.extend(self.terms(b, d).into_iter().map(|e| Expr::Right(Box::new(e))));
            }
            _ => {}
        }
        // --- block with a pattern let: { let p: S = e_S; body }
        // body: every name bound by p that has type `ty`, and (for shadowing) the outer variable of type ty
        for s in &u {
            if s.is_unit() {
                continue;
            }
            let rhs = self.terms(s, d);
            // binder names: a fresh one and one that shadows the outer variable of type `ty`
            let shadow = var_name(ty, 0);
            let names = ["p", shadow.as_str()];
            for p in patterns(s, &names, 3) {
                let mut binds = vec![];
                pattern_bindings(&p, s, &mut binds);
                let mut bodies: Vec<Expr> = binds.iter().filter(|(_, t)| t == ty).map(|(n, _)| var(n)).collect();
                let shadow_at_other_type = binds.iter().any(|(n, t)| *n == shadow && t != ty);
                if in_universe(&u, ty) && !shadow_at_other_type {
                    // the outer variable (shadowed or not, R2 decides which binding it denotes)
                    if !bodies.contains(&var(&shadow)) {
                        bodies.push(var(&shadow));
                    }
                }
                if bodies.is_empty() {
                    continue;
                }
                // limit rhs choices for destructuring patterns to keep the family finite but dense
                let rhs_take = if matches!(p, Pat::Id(_) | Pat::Ignore) { rhs.len() } else { rhs.len().min(6) };
                for r in rhs.iter().take(rhs_take) {
                    for b in &bodies {
                        out.push(block(vec![let_(p.clone(), s.clone(), r.clone())], Some(b.clone())));
                    }
                }
                // above depth 1: compound bodies evaluated *under* the new binding (calls, jets, matches ... whose
                // variable references must now denote the shadowing binding)
                if d >= 1 && !shadow_at_other_type && binds.iter().any(|(n, _)| *n == shadow) {
                    let compound_bodies: Vec<Expr> = self
                        .terms(ty, d)
                        .into_iter()
                        .filter(|b| !matches!(b, Expr::Var(_) | Expr::Lit(_)))
                        .filter(|b| {
                            let mut fv = BTreeSet::new();
                            free_vars(b, &mut vec![], &mut fv);
                            fv.contains(&shadow)
                        })
                        .collect();
                    // all calls of custom functions / jets whose arguments are plain variables (argument forwarding),
                    // plus a stride over the remaining compound bodies
                    let is_forwarding = |b: &Expr| matches!(b, Expr::Call(CallName::Fn(_) | CallName::Jet(_), args) if !args.is_empty() && args.iter().all(|a| matches!(a, Expr::Var(_))));
                    let (calls, others): (Vec<&Expr>, Vec<&Expr>) = compound_bodies.iter().partition(|b| is_forwarding(b));
                    let stride = (others.len() / 16).max(1);
                    let chosen: Vec<&Expr> = calls.into_iter().chain(others.into_iter().step_by(stride)).collect();
                    for r in rhs.iter().take(3) {
                        for b in &chosen {
                            out.push(block(vec![let_(p.clone(), s.clone(), r.clone())], Some((*b).clone())));
                        }
                    }
                }
            }
        }
        // --- block with unit statements
        {
            let bools = self.terms(&Ty::Bool, d);
            let tails = self.terms(ty, d);
            for c in bools.iter().take(4) {
                for t in tails.iter().take(4) {
                    out.push(block(vec![Stmt::Expr(assert_(c.clone()))], Some(t.clone())));
                }
            }
            let units = self.terms(&Ty::unit(), d);
            for c in units.iter().take(3) {
                for t in tails.iter().take(2) {
                    out.push(block(vec![Stmt::Expr(c.clone())], Some(t.clone())));
                }
            }
            if ty.is_unit() {
                out.push(block(vec![], None));
                for c in bools.iter().take(4) {
                    out.push(block(vec![Stmt::Expr(assert_(c.clone()))], None));
                }
            }
        }
        // --- match
        {
            let arms = self.terms(ty, d);
            // bool
            let scr = self.terms(&Ty::Bool, d);
            for s in scr.iter() {
                for (i, a) in arms.iter().take(5).enumerate() {
                    for (j, b) in arms.iter().take(5).enumerate() {
                        if i == j && arms.len() > 1 {
                            continue;
                        }
                        out.push(match_(s.clone(), (MPat::False, a.clone()), (MPat::True, b.clone())));
                        if i < 2 && j < 2 {
                            out.push(match_(s.clone(), (MPat::True, b.clone()), (MPat::False, a.clone())));
                        }
                    }
                }
            }
            // option / either scrutinees from the universe
            for s in &u {
                match s {
                    Ty::Option(inner) => {
                        let scr = self.terms(s, d);
                        let shadow = var_name(ty, 0);
                        let binders: Vec<&str> = if **inner == *ty { vec!["m", shadow.as_str()] } else { vec!["m"] };
                        for binder in binders {
                            let mut some_bodies: Vec<Expr> = arms.iter().take(3).cloned().collect();
                            if **inner == *ty && !some_bodies.contains(&var(binder)) {
                                some_bodies.insert(0, var(binder));
                            }
                            for sc in scr.iter() {
                                for nb in arms.iter().take(3) {
                                    for sb in &some_bodies {
                                        out.push(match_(sc.clone(), (MPat::None, nb.clone()), (MPat::Some(binder.into(), (**inner).clone()), sb.clone())));
                                    }
                                }
                                if let (Some(nb), Some(sb)) = (arms.first(), some_bodies.first()) {
                                    out.push(match_(sc.clone(), (MPat::Some(binder.into(), (**inner).clone()), sb.clone()), (MPat::None, nb.clone())));
                                }
                            }
                        }
                    }
                    Ty::Either(l, r) => {
                        let scr = self.terms(s, d);
                        let shadow = var_name(ty, 0);
                        let mut binder_pairs: Vec<(&str, &str)> = vec![("m", "m"), ("m", "n")];
                        if **l == *ty {
                            binder_pairs.push((shadow.as_str(), "n"));
                        }
                        if **r == *ty {
                            binder_pairs.push(("n", shadow.as_str()));
                        }
                        for (bl, br) in binder_pairs {
                            let mut lb: Vec<Expr> = arms.iter().take(2).cloned().collect();
                            if **l == *ty && !lb.contains(&var(bl)) {
                                lb.insert(0, var(bl));
                            }
                            let mut rb: Vec<Expr> = arms.iter().take(2).cloned().collect();
                            if **r == *ty && !rb.contains(&var(br)) {
                                rb.insert(0, var(br));
                            }
                            for sc in scr.iter() {
                                for x in &lb {
                                    for y in &rb {
                                        out.push(match_(sc.clone(), (MPat::Left(bl.into(), (**l).clone()), x.clone()), (MPat::Right(br.into(), (**r).clone()), y.clone())));
                                    }
                                }
                                if let (Some(x), Some(y)) = (lb.first(), rb.first()) {
                                    out.push(match_(sc.clone(), (MPat::Right(br.into(), (**r).clone()), y.clone()), (MPat::Left(bl.into(), (**l).clone()), x.clone())));
                                }
                            }
                        }
                    }
                    _ => {}
                }
            }
        }
        // --- custom function calls
        if in_universe(&u, ty) {
            // id_T
            let idn = self.def_fn(FnDef { name: format!("id_{}", ty.mangle()), params: vec![(var_name(ty, 0), ty.clone())], ret: Some(ty.clone()), body: (vec![], Some(Box::new(var(&var_name(ty, 0))))) });
            for a in self.terms(ty, d) {
                out.push(fcall(&idn, vec![a]));
            }
            // konst_T (no parameters)
            if let Some(c) = Self::constants(ty).first().cloned() {
                let kn = self.def_fn(FnDef { name: format!("konst_{}", ty.mangle()), params: vec![], ret: Some(ty.clone()), body: (vec![], Some(Box::new(c))) });
                out.push(fcall(&kn, vec![]));
            }
            // fst_T_S / snd_S_T for S in a small subset
            for s in u.iter().filter(|s| !s.is_unit()).take(6) {
                let f1 = self.def_fn(FnDef {
                    name: format!("fst_{}_{}", ty.mangle(), s.mangle()),
                    params: vec![("a".into(), ty.clone()), ("b".into(), s.clone())],
                    ret: Some(ty.clone()),
                    body: (vec![], Some(Box::new(var("a")))),
                });
                let f2 = self.def_fn(FnDef {
                    name: format!("snd_{}_{}", s.mangle(), ty.mangle()),
                    params: vec![("a".into(), s.clone()), ("b".into(), ty.clone())],
                    ret: Some(ty.clone()),
                    body: (vec![], Some(Box::new(var("b")))),
                });
                let xs = self.terms(ty, d);
                let ys = self.terms(s, d);
                for x in xs.iter().take(4) {
                    for y in ys.iter().take(3) {
                        out.push(fcall(&f1, vec![x.clone(), y.clone()]));
                        out.push(fcall(&f2, vec![y.clone(), x.clone()]));
                    }
                }
            }
            // second3_T(a, b, c) -> b ; third3 -> c ; first3 -> a  (same-typed parameters: order matters)
            if self.fam.loops {
                let xs = self.terms(ty, d);
                if xs.len() >= 3 {
                    for (k, pick) in ["a", "b", "c"].iter().enumerate() {
                        let f = self.def_fn(FnDef {
                            name: format!("pick{}_{}", k, ty.mangle()),
                            params: vec![("a".into(), ty.clone()), ("b".into(), ty.clone()), ("c".into(), ty.clone())],
                            ret: Some(ty.clone()),
                            body: (vec![], Some(Box::new(var(pick)))),
                        });
                        out.push(fcall(&f, vec![xs[0].clone(), xs[1].clone(), xs[2].clone()]));
                        out.push(fcall(&f, vec![xs[2].clone(), xs[0].clone(), xs[1].clone()]));
                    }
                }
            }
        }
        // swap_T_S : (S, T) from (T, S)
        if let Ty::Tuple(ts) = ty {
            if ts.len() == 2 && in_universe(&u, &ts[0]) && in_universe(&u, &ts[1]) {
                let (s, t) = (&ts[0], &ts[1]);
                let f = self.def_fn(FnDef {
                    name: format!("swap_{}_{}", t.mangle(), s.mangle()),
                    params: vec![("a".into(), t.clone()), ("b".into(), s.clone())],
                    ret: Some(ty.clone()),
                    body: (vec![], Some(Box::new(Expr::Tuple(vec![var("b"), var("a")])))),
                });
                let xs = self.terms(t, d);
                let ys = self.terms(s, d);
                for x in xs.iter().take(4) {
                    for y in ys.iter().take(4) {
                        out.push(fcall(&f, vec![x.clone(), y.clone()]));
                    }
                }
            }
        }
        // --- jets (a dozen total jets of arity 0..3 with closed forms)
        {
            let u8t = Ty::U(8);
            let jets1: &[(&str, Ty, Ty)] = &[
                ("complement_8", Ty::U(8), Ty::U(8)),
                ("some_8", Ty::U(8), Ty::Bool),
                ("left_pad_low_8_16", Ty::U(8), Ty::U(16)),
                ("leftmost_8_1", Ty::U(8), Ty::U(1)),
                ("rightmost_16_8", Ty::U(16), Ty::U(8)),
                ("complement_1", Ty::U(1), Ty::U(1)),
                ("increment_8", Ty::U(8), Ty::tup(vec![Ty::Bool, Ty::U(8)])),
            ];
            for (j, a, r) in jets1 {
                if r == ty {
                    for x in self.terms(a, d) {
                        out.push(jet(j, vec![x]));
                    }
                }
            }
            let jets2: &[(&str, Ty, Ty, Ty)] = &[
                ("xor_8", u8t.clone(), u8t.clone(), u8t.clone()),
                ("lt_8", u8t.clone(), u8t.clone(), Ty::Bool),
                ("eq_8", u8t.clone(), u8t.clone(), Ty::Bool),
                ("subtract_8", u8t.clone(), u8t.clone(), Ty::tup(vec![Ty::Bool, Ty::U(8)])),
                ("multiply_8", u8t.clone(), u8t.clone(), Ty::U(16)),
                ("eq_1", Ty::U(1), Ty::U(1), Ty::Bool),
                ("full_left_shift_8_1", Ty::U(8), Ty::U(1), Ty::tup(vec![Ty::U(1), Ty::U(8)])),
            ];
            for (j, a, b, r) in jets2 {
                if r == ty {
                    let xs = self.terms(a, d);
                    let ys = self.terms(b, d);
                    for x in xs.iter().take(6) {
                        for y in ys.iter().take(6) {
                            out.push(jet(j, vec![x.clone(), y.clone()]));
                        }
                    }
                }
            }
            if *ty == u8t {
                let xs = self.terms(&u8t, d);
                for (i, x) in xs.iter().take(3).enumerate() {
                    for (j2, y) in xs.iter().take(3).enumerate() {
                        for (k, z) in xs.iter().take(3).enumerate() {
                            if i == j2 && j2 == k {
                                continue;
                            }
                            out.push(jet("ch_8", vec![x.clone(), y.clone(), z.clone()]));
                        }
                    }
                }
                out.push(jet("high_8", vec![]));
                out.push(jet("one_8", vec![]));
            }
        }
        // --- unwrap family, is_none, dbg, panic, assert
        {
            let ot = Ty::opt(ty.clone());
            if in_universe(&u, &ot) {
                for x in self.terms(&ot, d) {
                    out.push(call(CallName::Unwrap, vec![x]));
                }
            }
            for s in &u {
                if let Ty::Either(l, r) = s {
                    if **l == *ty {
                        for x in self.terms(s, d) {
                            out.push(call(CallName::UnwrapLeft((**r).clone()), vec![x]));
                        }
                    }
                    if **r == *ty {
                        for x in self.terms(s, d) {
                            out.push(call(CallName::UnwrapRight((**l).clone()), vec![x]));
                        }
                    }
                }
                if let Ty::Option(inner) = s {
                    if *ty == Ty::Bool {
                        for x in self.terms(s, d) {
                            out.push(call(CallName::IsNone((**inner).clone()), vec![x]));
                        }
                    }
                }
            }
            for x in self.terms(ty, d) {
                if !matches!(x, Expr::Call(CallName::Dbg, _)) {
                    out.push(call(CallName::Dbg, vec![x]));
                }
            }
            out.push(call(CallName::Panic, vec![]));
            if ty.is_unit() {
                for x in self.terms(&Ty::Bool, d) {
                    out.push(assert_(x));
                }
            }
        }
        // --- casts between equal layouts
        for s in &u {
            if s != ty && same_layout(s, ty) {
                for x in self.terms(s, d) {
                    out.push(cast(s.clone(), x));
                }
            }
        }
        // --- one fold and one for_while instance
        if self.fam.loops {
            if *ty == Ty::U(8) {
                let lt = Ty::list(Ty::U(8), 4);
                if in_universe(&u, &lt) {
                    let f = self.def_fn(fold_step_fn());
                    let ls = self.terms(&lt, d);
                    let accs = self.terms(&Ty::U(8), d);
                    for l in &ls {
                        for a in accs.iter().take(3) {
                            out.push(call(CallName::Fold(f.clone(), 4), vec![l.clone(), a.clone()]));
                        }
                    }
                }
            }
            if *ty == Ty::either(Ty::U(8), Ty::U(8)) {
                let f = self.def_fn(loop_step_fn());
                let xs = self.terms(&Ty::U(8), d);
                for a in xs.iter().take(4) {
                    for c in xs.iter().take(4) {
                        out.push(call(CallName::ForWhile(f.clone()), vec![a.clone(), c.clone()]));
                    }
                }
            }
        }
        out
    }
}

/// fn fstep(e: u8, acc: u8) -> u8 { jet::xor_8(jet::left_rotate_8(1, acc), e) }   (order sensitive)
pub fn fold_step_fn() -> FnDef {
    FnDef {
        name: "fstep".into(),
        params: vec![("e".into(), Ty::U(8)), ("acc".into(), Ty::U(8))],
        ret: Some(Ty::U(8)),
        body: (vec![], Some(Box::new(jet("xor_8", vec![jet("left_rotate_8", vec![dec(1), var("acc")]), var("e")])))),
    }
}

/// fn lstep(acc: u8, ctx: u8, i: u2) -> Either<u8, u8> {
///     match jet::eq_8(acc, ctx) { true => Left(jet::xor_8(acc, jet::left_pad_low_1_8(jet::leftmost_2_1... (kept simple)
/// exits with Left(acc) as soon as acc == ctx, otherwise acc := rotl(acc,1) ^ 1
pub fn loop_step_fn() -> FnDef {
    FnDef {
        name: "lstep".into(),
        params: vec![("acc".into(), Ty::U(8)), ("ctx".into(), Ty::U(8)), ("i".into(), Ty::U(2))],
        ret: Some(Ty::either(Ty::U(8), Ty::U(8))),
        body: (
            vec![],
            Some(Box::new(match_(
                jet("eq_8", vec![var("acc"), var("ctx")]),
                (MPat::True, Expr::Left(Box::new(var("acc")))),
                (MPat::False, Expr::Right(Box::new(jet("xor_8", vec![jet("left_rotate_8", vec![dec(1), var("acc")]), dec(1)])))),
            ))),
        ),
    }
}

/// Collect the prelude functions a term needs (transitively none: prelude functions do not call each other).
pub fn fns_for(e: &Expr, all: &BTreeMap<String, FnDef>) -> Vec<FnDef> {
    let mut names = BTreeSet::new();
    called_fns(e, &mut names);
    names.iter().filter_map(|n| all.get(n).cloned()).collect()
}

/// Names bound anywhere inside a term (let patterns, match binders).
pub fn bound_names(e: &Expr, out: &mut BTreeSet<String>) {
    match e {
        Expr::Lit(_) | Expr::Witness(_) | Expr::Param(_) | Expr::None | Expr::Var(_) => {}
        Expr::Paren(x) | Expr::Left(x) | Expr::Right(x) | Expr::Some(x) => bound_names(x, out),
        Expr::Tuple(v) | Expr::Array(v) | Expr::List(v) => v.iter().for_each(|x| bound_names(x, out)),
        Expr::Block(stmts, last) => {
            for s in stmts {
                match s {
                    Stmt::Let(p, _, x) => {
                        let mut n = vec![];
                        p.names(&mut n);
                        out.extend(n);
                        bound_names(x, out);
                    }
                    Stmt::Expr(x) => bound_names(x, out),
                }
            }
            if let Some(x) = last {
                bound_names(x, out);
            }
        }
        Expr::Match(s, a, b) => {
            bound_names(s, out);
            for arm in [a, b] {
                if let MPat::Some(n, _) | MPat::Left(n, _) | MPat::Right(n, _) = &arm.pat {
                    out.insert(n.clone());
                }
                bound_names(&arm.body, out);
            }
        }
        Expr::Call(_, args) => args.iter().for_each(|x| bound_names(x, out)),
    }
}

/// The witness-bound variables a term is wrapped with: its free variables and, so that shadowing is real, every
/// family variable that the term *re-binds* (the outer binding must exist for the inner one to shadow it).
/// Types are recovered from the naming scheme.
pub fn free_typed(e: &Expr, universe: &[Ty]) -> Vec<(String, Ty)> {
    let mut fv = BTreeSet::new();
    free_vars(e, &mut vec![], &mut fv);
    let family_ty = |n: &str| -> Option<Ty> {
        for t in universe {
            for k in 0..2 {
                if var_name(t, k) == n {
                    return Some(t.clone());
                }
            }
        }
        None
    };
    let mut out = vec![];
    for n in &fv {
        match family_ty(n) {
            Some(t) => out.push((n.clone(), t)),
            None => panic!("free variable {n} is not a family variable in {}", render_expr(e)),
        }
    }
    let mut bound = BTreeSet::new();
    bound_names(e, &mut bound);
    for n in bound {
        if !fv.contains(&n) {
            if let Some(t) = family_ty(&n) {
                out.push((n, t));
            }
        }
    }
    out.sort();
    out
}

/// Standard universes.
pub fn universe_a() -> Vec<Ty> {
    let u = Ty::U;
    vec![
        Ty::unit(),
        Ty::Bool,
        u(1),
        u(2),
        u(8),
        u(16),
        Ty::opt(u(8)),
        Ty::opt(Ty::Bool),
        Ty::either(u(8), Ty::Bool),
        Ty::either(u(1), u(8)),
        Ty::either(u(8), u(8)),
        Ty::tup(vec![u(8), Ty::Bool]),
        Ty::tup(vec![Ty::Bool, u(8)]),
        Ty::tup(vec![u(8), u(8)]),
        Ty::tup(vec![u(1), u(8)]),
        Ty::tup(vec![u(1), u(8), Ty::Bool]),
        Ty::tup(vec![u(8)]),
        Ty::arr(u(8), 2),
        Ty::arr(u(1), 3),
        Ty::list(u(8), 4),
        Ty::list(Ty::Bool, 2),
    ]
}

pub fn universe_b() -> Vec<Ty> {
    let u = Ty::U;
    vec![Ty::unit(), Ty::Bool, u(1), u(8), Ty::opt(u(8)), Ty::either(u(1), u(8)), Ty::tup(vec![u(1), u(8)]), Ty::arr(u(1), 3)]
}

/// Degenerate sizes: zero-width components, empty and one-element containers, the smallest list bound.
pub fn universe_d() -> Vec<Ty> {
    let u = Ty::U;
    vec![
        Ty::unit(),
        u(8),
        Ty::Bool,
        Ty::arr(u(8), 0),
        Ty::arr(u(8), 1),
        Ty::arr(Ty::unit(), 2),
        Ty::tup(vec![Ty::unit()]),
        Ty::tup(vec![Ty::unit(), u(8)]),
        Ty::tup(vec![u(8), Ty::arr(u(8), 0)]),
        Ty::opt(Ty::unit()),
        Ty::either(Ty::unit(), Ty::unit()),
        Ty::either(Ty::arr(u(8), 0), u(8)),
        Ty::list(Ty::unit(), 2),
        Ty::list(u(8), 2),
        Ty::list(Ty::unit(), 4),
    ]
}

pub fn universe_c() -> Vec<Ty> {
    vec![Ty::Bool, Ty::U(1), Ty::opt(Ty::U(1))]
}
