//! Counters, evidence JSON, replay files, known-findings matching, exit protocol.

use serde_json::{json, Map, Value as J};
use std::collections::BTreeMap;
use std::sync::atomic::{AtomicBool, AtomicU64, Ordering};
use std::sync::Mutex;
use std::time::Instant;

pub const VERIF_DIR_DEFAULT: &str = "/verif";

/// Where evidence / replays / known_findings.json live (VERIF_OUT overrides, for runs from a snapshot).
pub fn verif_dir() -> String {
    std::env::var("VERIF_OUT").unwrap_or_else(|_| VERIF_DIR_DEFAULT.to_string())
}

#[derive(Clone, Debug)]
pub struct Violation {
    /// stable class of the failure; compared with known_findings.json
    pub signature: String,
    /// human-readable one-liner
    pub what: String,
    /// everything needed to re-run this case without the explorer
    pub replay: J,
}

pub struct Report {
    pub id: String,
    pub tier: String,
    pub seed: i64,
    pub start: Instant,
    pub wall_cap_s: f64,
    pub states: AtomicU64,
    pub transitions: AtomicU64,
    pub evaluations: AtomicU64,
    pub traces: AtomicU64,
    pub nontrivial: AtomicU64,
    pub classes: Mutex<BTreeMap<String, u64>>,
    pub samples: Mutex<Vec<J>>,
    pub violations: Mutex<Vec<Violation>>,
    pub extra: Mutex<Map<String, J>>,
    pub caps_hit: Mutex<Vec<String>>,
    pub stop: AtomicBool,
    pub has_sample: AtomicBool,
    pub machinery_errors: Mutex<Vec<String>>,
}

impl Report {
    pub fn new(id: &str, tier: &str) -> Self {
        let seed = std::env::var("VERIF_SEED").ok().and_then(|s| s.parse().ok()).unwrap_or(0);
        let wall_cap_s = std::env::var("VERIF_WALL_CAP").ok().and_then(|s| s.parse().ok()).unwrap_or(if tier == "quick" { 50.0 } else { 3000.0 });
        Report {
            id: id.to_string(),
            tier: tier.to_string(),
            seed,
            start: Instant::now(),
            wall_cap_s,
            states: AtomicU64::new(0),
            transitions: AtomicU64::new(0),
            evaluations: AtomicU64::new(0),
            traces: AtomicU64::new(0),
            nontrivial: AtomicU64::new(0),
            classes: Mutex::new(BTreeMap::new()),
            samples: Mutex::new(vec![]),
            violations: Mutex::new(vec![]),
            extra: Mutex::new(Map::new()),
            caps_hit: Mutex::new(vec![]),
            stop: AtomicBool::new(false),
            has_sample: AtomicBool::new(false),
            machinery_errors: Mutex::new(vec![]),
        }
    }
    pub fn is_quick(&self) -> bool {
        self.tier == "quick"
    }
    pub fn state(&self) {
        self.states.fetch_add(1, Ordering::Relaxed);
    }
    pub fn states_n(&self, n: u64) {
        self.states.fetch_add(n, Ordering::Relaxed);
    }
    pub fn transition(&self, n: u64) {
        self.transitions.fetch_add(n, Ordering::Relaxed);
    }
    pub fn eval(&self, n: u64) {
        self.evaluations.fetch_add(n, Ordering::Relaxed);
    }
    pub fn trace(&self, n: u64) {
        self.traces.fetch_add(n, Ordering::Relaxed);
    }
    pub fn nontrivial(&self, n: u64) {
        self.nontrivial.fetch_add(n, Ordering::Relaxed);
    }
    pub fn class(&self, c: &str) {
        *self.classes.lock().unwrap().entry(c.to_string()).or_insert(0) += 1;
    }
    pub fn class_n(&self, c: &str, n: u64) {
        *self.classes.lock().unwrap().entry(c.to_string()).or_insert(0) += n;
    }
    /// keep up to `cap` samples
    pub fn sample(&self, cap: usize, f: impl FnOnce() -> J) {
        let mut s = self.samples.lock().unwrap();
        if s.len() < cap.max(1) {
            s.push(f());
            self.has_sample.store(true, Ordering::Relaxed);
        }
    }
    /// true until the first sample has been recorded (so that every run, even a capped one, writes a sample)
    pub fn no_sample_yet(&self) -> bool {
        !self.has_sample.load(Ordering::Relaxed)
    }
    pub fn set(&self, k: &str, v: J) {
        self.extra.lock().unwrap().insert(k.to_string(), v);
    }
    pub fn violation(&self, signature: impl Into<String>, what: impl Into<String>, replay: J) {
        let mut v = self.violations.lock().unwrap();
        if v.len() < 100_000 {
            v.push(Violation { signature: signature.into(), what: what.into(), replay });
        }
    }
    pub fn machinery(&self, what: impl Into<String>) {
        self.machinery_errors.lock().unwrap().push(what.into());
    }
    pub fn cap(&self, what: impl Into<String>) {
        let mut c = self.caps_hit.lock().unwrap();
        let w = what.into();
        if !c.contains(&w) {
            c.push(w);
        }
    }
    /// true when the wall cap has been exceeded (and records it)
    pub fn out_of_time(&self) -> bool {
        if self.stop.load(Ordering::Relaxed) {
            return true;
        }
        if self.start.elapsed().as_secs_f64() > self.wall_cap_s {
            self.stop.store(true, Ordering::Relaxed);
            self.cap(format!("wall cap {}s", self.wall_cap_s));
            return true;
        }
        false
    }

    /// Write evidence, print KNOWN-FINDING / VIOLATION lines, return the exit code.
    pub fn finish(&self, rule: &str, assumptions: &[&str], exhaustive_if_no_cap: bool) -> i32 {
        let known = load_known();
        let violations = self.violations.lock().unwrap().clone();
        // group by signature
        let mut groups: BTreeMap<String, Vec<&Violation>> = BTreeMap::new();
        for v in &violations {
            groups.entry(v.signature.clone()).or_default().push(v);
        }
        // replay files of earlier runs of this property are stale now
        let _ = std::fs::remove_dir_all(format!("{}/replays/{}", verif_dir(), self.id));
        let mut new_count = 0u64;
        let mut known_count = 0u64;
        let mut lines = 0;
        let mut known_lines: Vec<String> = vec![];
        let mut new_sigs: Vec<J> = vec![];
        for (sig, vs) in &groups {
            if let Some(k) = known.iter().find(|k| k.property == self.id && sig_matches(&k.signature, sig)) {
                known_count += vs.len() as u64;
                known_lines.push(format!("KNOWN-FINDING: property={} {} [{} cases, signature {}; e.g. {}]", self.id, k.what, vs.len(), sig, vs[0].what));
            } else {
                new_count += vs.len() as u64;
                // one replay file per signature (the smallest / first case), up to 20 lines
                if lines < 20 {
                    let dir = format!("{}/replays/{}", verif_dir(), self.id);
                    let _ = std::fs::create_dir_all(&dir);
                    let mut replay = vs[0].replay.clone();
                    if let J::Object(m) = &mut replay {
                        m.insert("property".into(), json!(self.id));
                        m.insert("signature".into(), json!(sig));
                        m.insert("what".into(), json!(vs[0].what));
                        m.insert("cases_with_this_signature".into(), json!(vs.len()));
                    }
                    let name = format!("{:016x}", fxhash(sig.as_bytes()));
                    let path = format!("{dir}/{name}.json");
                    let _ = std::fs::write(&path, serde_json::to_string_pretty(&replay).unwrap());
                    println!("VIOLATION property={} replay={}", self.id, path);
                    eprintln!("  {} :: {}", sig, vs[0].what);
                    lines += 1;
                }
                new_sigs.push(json!({"signature": sig, "cases": vs.len(), "example": vs[0].what, "more_examples": vs.iter().skip(1).take(8).map(|v| v.what.clone()).collect::<Vec<_>>()}));
            }
        }
        for l in &known_lines {
            println!("{l}");
        }
        let caps = self.caps_hit.lock().unwrap().clone();
        let mach = self.machinery_errors.lock().unwrap().clone();
        let mut cov = Map::new();
        let states = self.states.load(Ordering::Relaxed);
        let transitions = self.transitions.load(Ordering::Relaxed);
        cov.insert("states".into(), json!(states));
        cov.insert("transitions".into(), json!(transitions));
        cov.insert("traces_validated_against_impl".into(), json!(self.traces.load(Ordering::Relaxed)));
        cov.insert("evaluations".into(), json!(self.evaluations.load(Ordering::Relaxed)));
        cov.insert("distinct_nontrivial".into(), json!(self.nontrivial.load(Ordering::Relaxed)));
        cov.insert("rule".into(), json!(rule));
        cov.insert("samples".into(), J::Array(self.samples.lock().unwrap().clone()));
        cov.insert("exhaustive".into(), json!(exhaustive_if_no_cap && caps.is_empty()));
        cov.insert("caps_hit".into(), json!(caps));
        let classes: Map<String, J> = self.classes.lock().unwrap().iter().map(|(k, v)| (k.clone(), json!(v))).collect();
        cov.insert("outcome_classes".into(), J::Object(classes));
        cov.insert("known_finding_cases".into(), json!(known_count));
        cov.insert("new_violation_signatures".into(), J::Array(new_sigs));
        for (k, v) in self.extra.lock().unwrap().iter() {
            cov.insert(k.clone(), v.clone());
        }
        let ev = json!({
            "property_id": self.id,
            "tier": self.tier,
            "seed": self.seed,
            "level": "model_checking",
            "coverage": J::Object(cov),
            "assumptions": assumptions,
            "wall_s": self.start.elapsed().as_secs_f64(),
            "violations": new_count,
        });
        let dir = format!("{}/evidence", verif_dir());
        let _ = std::fs::create_dir_all(&dir);
        let path = format!("{dir}/{}.json", self.id);
        if let Err(e) = std::fs::write(&path, serde_json::to_string_pretty(&ev).unwrap()) {
            eprintln!("cannot write evidence {path}: {e}");
            return 2;
        }
        eprintln!(
            "[{} {}] states={} transitions={} evaluations={} traces={} nontrivial={} new_violations={} known={} wall={:.1}s caps={:?}",
            self.id,
            self.tier,
            states,
            transitions,
            self.evaluations.load(Ordering::Relaxed),
            self.traces.load(Ordering::Relaxed),
            self.nontrivial.load(Ordering::Relaxed),
            new_count,
            known_count,
            self.start.elapsed().as_secs_f64(),
            self.caps_hit.lock().unwrap()
        );
        if !mach.is_empty() {
            for m in mach.iter().take(10) {
                eprintln!("MACHINERY-ERROR: {m}");
            }
            return 2;
        }
        if states == 0 || transitions == 0 {
            eprintln!("MACHINERY-ERROR: vacuous run (no states explored)");
            return 2;
        }
        if new_count > 0 {
            1
        } else {
            0
        }
    }
}

pub fn fxhash(b: &[u8]) -> u64 {
    // FNV-1a 64
    let mut h: u64 = 0xcbf29ce484222325;
    for &x in b {
        h ^= x as u64;
        h = h.wrapping_mul(0x100000001b3);
    }
    h
}

#[derive(Clone, Debug)]
pub struct Known {
    pub property: String,
    pub signature: String,
    pub what: String,
}

/// a known-finding signature may end in `*` (prefix match); otherwise exact
fn sig_matches(pattern: &str, sig: &str) -> bool {
    match pattern.strip_suffix('*') {
        Some(p) => sig.starts_with(p),
        None => pattern == sig,
    }
}

pub fn load_known() -> Vec<Known> {
    let path = format!("{}/known_findings.json", verif_dir());
    let Ok(text) = std::fs::read_to_string(&path) else { return vec![] };
    let Ok(j) = serde_json::from_str::<J>(&text) else {
        eprintln!("known_findings.json is not valid JSON; ignoring");
        return vec![];
    };
    let mut out = vec![];
    if let Some(a) = j.get("findings").and_then(|f| f.as_array()) {
        for f in a {
            let g = |k: &str| f.get(k).and_then(|x| x.as_str()).unwrap_or("").to_string();
            out.push(Known { property: g("property"), signature: g("signature"), what: g("what") });
        }
    }
    out
}
