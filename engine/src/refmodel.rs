//! Reference models written from the book and the property statements, independent of /repo/src:
//! R1 static rules, R2 dynamic semantics, R3 layout, R4 literals.  (R5 jets live in jets.rs.)

use crate::big::Big;
use crate::jets;
use crate::lang::*;
use std::cell::RefCell;
use std::collections::HashMap;
use std::rc::Rc;

// =============================================================================================
// aliases

pub fn builtin_alias(name: &str) -> Option<Ty> {
    let u = Ty::U;
    let conf = || Ty::tup(vec![u(1), u(256)]);
    Some(match name {
        "Amount1" | "TokenAmount1" => Ty::either(conf(), u(64)),
        // the pinned book said u256 here; it is u64 (the explicit side of Amount1), see DESIGN 12.3
        "ExplicitAmount" => u(64),
        "Asset1" | "Nonce" => Ty::either(conf(), u(256)),
        "Confidential1" | "Point" => conf(),
        "Ctx8" => Ty::tup(vec![Ty::list(u(8), 64), Ty::tup(vec![u(64), u(256)])]),
        "Distance" | "Duration" => u(16),
        "ExplicitAsset" | "ExplicitNonce" | "Fe" | "Message" | "Pubkey" | "Scalar" => u(256),
        "Ge" => Ty::tup(vec![u(256), u(256)]),
        "Gej" => Ty::tup(vec![Ty::tup(vec![u(256), u(256)]), u(256)]),
        "Height" | "Lock" | "Time" => u(32),
        "Message64" | "Signature" => Ty::arr(u(8), 64),
        "Outpoint" => Ty::tup(vec![u(256), u(32)]),
        _ => return None,
    })
}

pub const BUILTIN_ALIASES: [&str; 24] = [
    "Ctx8", "Pubkey", "Message64", "Message", "Signature", "Scalar", "Fe", "Gej", "Ge", "Point", "Height", "Time",
    "Distance", "Duration", "Lock", "Outpoint", "Confidential1", "ExplicitAsset", "Asset1", "ExplicitAmount",
    "Amount1", "ExplicitNonce", "Nonce", "TokenAmount1",
];

pub type AliasMap = HashMap<String, Ty>;

fn valid_uint(n: u16) -> bool {
    matches!(n, 1 | 2 | 4 | 8 | 16 | 32 | 64 | 128 | 256)
}

/// Resolve all aliases; Err(name) for an undefined alias, Err("#bound") for an invalid list bound.
pub fn resolve(ty: &Ty, aliases: &AliasMap) -> Result<Ty, String> {
    Ok(match ty {
        Ty::Bool => Ty::Bool,
        Ty::U(n) => {
            if !valid_uint(*n) {
                return Err(format!("#uint{n}"));
            }
            Ty::U(*n)
        }
        Ty::Tuple(v) => Ty::Tuple(v.iter().map(|t| resolve(t, aliases)).collect::<Result<_, _>>()?),
        Ty::Array(t, n) => Ty::Array(Box::new(resolve(t, aliases)?), *n),
        Ty::List(t, n) => {
            if !(n.is_power_of_two() && *n >= 2) {
                return Err("#bound".into());
            }
            Ty::List(Box::new(resolve(t, aliases)?), *n)
        }
        Ty::Option(t) => Ty::Option(Box::new(resolve(t, aliases)?)),
        Ty::Either(a, b) => Ty::Either(Box::new(resolve(a, aliases)?), Box::new(resolve(b, aliases)?)),
        Ty::Alias(n) => match aliases.get(n) {
            Some(t) => t.clone(),
            None => builtin_alias(n).ok_or_else(|| n.clone())?,
        },
    })
}

// =============================================================================================
// R3 layout: interned structural shapes

#[derive(Copy, Clone, PartialEq, Eq, Hash, Debug)]
pub struct Shape(pub u32);

#[derive(Copy, Clone, PartialEq, Eq, Hash, Debug)]
pub enum ShapeNode {
    Unit,
    Sum(Shape, Shape),
    Prod(Shape, Shape),
}

#[derive(Default)]
struct ShapeTable {
    nodes: Vec<ShapeNode>,
    index: HashMap<ShapeNode, Shape>,
    arr_memo: HashMap<(Shape, usize), Shape>,
}

thread_local! {
    static SHAPES: RefCell<ShapeTable> = RefCell::new(ShapeTable::default());
}

fn intern(n: ShapeNode) -> Shape {
    SHAPES.with(|t| {
        let mut t = t.borrow_mut();
        if let Some(s) = t.index.get(&n) {
            return *s;
        }
        let s = Shape(t.nodes.len() as u32);
        t.nodes.push(n);
        t.index.insert(n, s);
        s
    })
}

pub fn shape_node(s: Shape) -> ShapeNode {
    SHAPES.with(|t| t.borrow().nodes[s.0 as usize])
}

fn s_unit() -> Shape {
    intern(ShapeNode::Unit)
}
fn s_sum(a: Shape, b: Shape) -> Shape {
    intern(ShapeNode::Sum(a, b))
}
fn s_prod(a: Shape, b: Shape) -> Shape {
    intern(ShapeNode::Prod(a, b))
}

/// largest power of two strictly below n (n >= 2)
pub fn right_part(n: usize) -> usize {
    debug_assert!(n >= 2);
    let mut p = 1;
    while p * 2 < n {
        p *= 2;
    }
    p
}

fn arr_shape(el: Shape, n: usize) -> Shape {
    if n == 0 {
        return s_unit();
    }
    if n == 1 {
        return el;
    }
    if let Some(s) = SHAPES.with(|t| t.borrow().arr_memo.get(&(el, n)).copied()) {
        return s;
    }
    let p = right_part(n);
    let s = s_prod(arr_shape(el, n - p), arr_shape(el, p));
    SHAPES.with(|t| t.borrow_mut().arr_memo.insert((el, n), s));
    s
}

fn tuple_shape(parts: &[Shape]) -> Shape {
    match parts.len() {
        0 => s_unit(),
        1 => parts[0],
        n => {
            let p = right_part(n);
            s_prod(tuple_shape(&parts[..n - p]), tuple_shape(&parts[n - p..]))
        }
    }
}

/// Layout of a *resolved* type.
pub fn layout(ty: &Ty) -> Shape {
    match ty {
        Ty::Bool => s_sum(s_unit(), s_unit()),
        Ty::U(1) => s_sum(s_unit(), s_unit()),
        Ty::U(n) => {
            let h = layout(&Ty::U(n / 2));
            s_prod(h, h)
        }
        Ty::Option(a) => s_sum(s_unit(), layout(a)),
        Ty::Either(a, b) => s_sum(layout(a), layout(b)),
        Ty::Tuple(v) => {
            let parts: Vec<Shape> = v.iter().map(layout).collect();
            tuple_shape(&parts)
        }
        Ty::Array(a, n) => arr_shape(layout(a), *n),
        Ty::List(a, n) => {
            let el = layout(a);
            list_shape(el, *n)
        }
        Ty::Alias(n) => panic!("layout of unresolved alias {n}"),
    }
}

fn list_shape(el: Shape, bound: usize) -> Shape {
    if bound == 2 {
        s_sum(s_unit(), el)
    } else {
        let h = bound / 2;
        s_prod(s_sum(s_unit(), arr_shape(el, h)), list_shape(el, h))
    }
}

/// number of bits of the compact encoding is not needed; but the number of distinct values is handy
pub fn same_layout(a: &Ty, b: &Ty) -> bool {
    layout(a) == layout(b)
}

// ---------------------------------------------------------------------------------------------
// value trees

#[derive(Clone, Debug, PartialEq, Eq, Hash)]
pub enum BV {
    Unit,
    L(Rc<BV>),
    R(Rc<BV>),
    P(Rc<BV>, Rc<BV>),
}

fn bv_bits(bits: &[bool]) -> BV {
    if bits.len() == 1 {
        return if bits[0] { BV::R(Rc::new(BV::Unit)) } else { BV::L(Rc::new(BV::Unit)) };
    }
    let h = bits.len() / 2;
    BV::P(Rc::new(bv_bits(&bits[..h])), Rc::new(bv_bits(&bits[h..])))
}

fn bv_tuple(parts: Vec<BV>) -> BV {
    let n = parts.len();
    match n {
        0 => BV::Unit,
        1 => parts.into_iter().next().unwrap(),
        _ => {
            let p = right_part(n);
            let mut parts = parts;
            let right = parts.split_off(n - p);
            BV::P(Rc::new(bv_tuple(parts)), Rc::new(bv_tuple(right)))
        }
    }
}

fn bv_list(el_ty: &Ty, vs: &[Val], bound: usize) -> BV {
    if bound == 2 {
        return match vs.len() {
            0 => BV::L(Rc::new(BV::Unit)),
            1 => BV::R(Rc::new(encode(&vs[0], el_ty))),
            _ => panic!("list too long for bound"),
        };
    }
    let h = bound / 2;
    if vs.len() >= h {
        let block = bv_tuple(vs[..h].iter().map(|v| encode(v, el_ty)).collect());
        BV::P(Rc::new(BV::R(Rc::new(block))), Rc::new(bv_list(el_ty, &vs[h..], h)))
    } else {
        BV::P(Rc::new(BV::L(Rc::new(BV::Unit))), Rc::new(bv_list(el_ty, vs, h)))
    }
}

/// Encode a value at its (resolved) type.  Panics when the value is not of the type (harness bug).
pub fn encode(v: &Val, ty: &Ty) -> BV {
    match (v, ty) {
        (Val::Bool(b), Ty::Bool) => bv_bits(&[*b]),
        (Val::U(w, big), Ty::U(n)) if w == n => bv_bits(&big.to_bits(*n as usize)),
        (Val::Tuple(vs), Ty::Tuple(ts)) if vs.len() == ts.len() => {
            bv_tuple(vs.iter().zip(ts).map(|(v, t)| encode(v, t)).collect())
        }
        (Val::Array(vs), Ty::Array(t, n)) if vs.len() == *n => bv_tuple(vs.iter().map(|v| encode(v, t)).collect()),
        (Val::List(vs), Ty::List(t, n)) if vs.len() < *n => bv_list(t, vs, *n),
        (Val::Left(x), Ty::Either(a, _)) => BV::L(Rc::new(encode(x, a))),
        (Val::Right(x), Ty::Either(_, b)) => BV::R(Rc::new(encode(x, b))),
        (Val::None, Ty::Option(_)) => BV::L(Rc::new(BV::Unit)),
        (Val::Some(x), Ty::Option(a)) => BV::R(Rc::new(encode(x, a))),
        _ => panic!("encode: value {v:?} is not of type {}", ty.render()),
    }
}

fn bits_of(bv: &BV, n: usize, out: &mut Vec<bool>) -> Option<()> {
    if n == 1 {
        match bv {
            BV::L(x) if **x == BV::Unit => out.push(false),
            BV::R(x) if **x == BV::Unit => out.push(true),
            _ => return None,
        }
        return Some(());
    }
    match bv {
        BV::P(a, b) => {
            bits_of(a, n / 2, out)?;
            bits_of(b, n / 2, out)
        }
        _ => None,
    }
}

fn untuple<'a>(bv: &'a BV, n: usize, out: &mut Vec<&'a BV>) -> Option<()> {
    match n {
        0 => (*bv == BV::Unit).then_some(()),
        1 => {
            out.push(bv);
            Some(())
        }
        _ => match bv {
            BV::P(a, b) => {
                let p = right_part(n);
                untuple(a, n - p, out)?;
                untuple(b, p, out)
            }
            _ => None,
        },
    }
}

fn unlist(el: &Ty, bv: &BV, bound: usize, out: &mut Vec<Val>) -> Option<()> {
    if bound == 2 {
        return match bv {
            BV::L(x) if **x == BV::Unit => Some(()),
            BV::R(x) => {
                out.push(decode(el, x)?);
                Some(())
            }
            _ => None,
        };
    }
    let h = bound / 2;
    match bv {
        BV::P(block, rest) => {
            match &**block {
                BV::L(x) if **x == BV::Unit => {}
                BV::R(x) => {
                    let mut parts = vec![];
                    untuple(x, h, &mut parts)?;
                    for p in parts {
                        out.push(decode(el, p)?);
                    }
                }
                _ => return None,
            }
            unlist(el, rest, h, out)
        }
        _ => None,
    }
}

/// Decode a value tree at a (resolved) type.
pub fn decode(ty: &Ty, bv: &BV) -> Option<Val> {
    Some(match ty {
        Ty::Bool => {
            let mut b = vec![];
            bits_of(bv, 1, &mut b)?;
            Val::Bool(b[0])
        }
        Ty::U(n) => {
            let mut b = vec![];
            bits_of(bv, *n as usize, &mut b)?;
            Val::U(*n, Big::from_bits(&b))
        }
        Ty::Tuple(ts) => {
            let mut parts = vec![];
            untuple(bv, ts.len(), &mut parts)?;
            Val::Tuple(parts.iter().zip(ts).map(|(p, t)| decode(t, p)).collect::<Option<_>>()?)
        }
        Ty::Array(t, n) => {
            let mut parts = vec![];
            untuple(bv, *n, &mut parts)?;
            Val::Array(parts.iter().map(|p| decode(t, p)).collect::<Option<_>>()?)
        }
        Ty::List(t, n) => {
            let mut out = vec![];
            unlist(t, bv, *n, &mut out)?;
            Val::List(out)
        }
        Ty::Option(a) => match bv {
            BV::L(x) if **x == BV::Unit => Val::None,
            BV::R(x) => Val::Some(Box::new(decode(a, x)?)),
            _ => return None,
        },
        Ty::Either(a, b) => match bv {
            BV::L(x) => Val::Left(Box::new(decode(a, x)?)),
            BV::R(x) => Val::Right(Box::new(decode(b, x)?)),
            _ => return None,
        },
        Ty::Alias(_) => return None,
    })
}

/// `<S>::into` : re-read the same bits at the target type.
pub fn cast_val(v: &Val, from: &Ty, to: &Ty) -> Option<Val> {
    decode(to, &encode(v, from))
}

/// The all-zero value of a type (what an absent witness is filled with, and what C03 uses as arguments).
pub fn zero_val(ty: &Ty) -> Val {
    match ty {
        Ty::Bool => Val::Bool(false),
        Ty::U(n) => Val::U(*n, Big::zero()),
        Ty::Tuple(ts) => Val::Tuple(ts.iter().map(zero_val).collect()),
        Ty::Array(t, n) => Val::Array((0..*n).map(|_| zero_val(t)).collect()),
        Ty::List(_, _) => Val::List(vec![]),
        Ty::Option(_) => Val::None,
        Ty::Either(a, _) => Val::Left(Box::new(zero_val(a))),
        Ty::Alias(n) => panic!("zero_val of alias {n}"),
    }
}

/// Is `v` a value of (resolved) type `ty`?
pub fn val_has_type(v: &Val, ty: &Ty) -> bool {
    match (v, ty) {
        (Val::Bool(_), Ty::Bool) => true,
        (Val::U(w, b), Ty::U(n)) => w == n && b.bit_len() <= *n as usize,
        (Val::Tuple(vs), Ty::Tuple(ts)) => vs.len() == ts.len() && vs.iter().zip(ts).all(|(v, t)| val_has_type(v, t)),
        (Val::Array(vs), Ty::Array(t, n)) => vs.len() == *n && vs.iter().all(|v| val_has_type(v, t)),
        (Val::List(vs), Ty::List(t, n)) => vs.len() < *n && vs.iter().all(|v| val_has_type(v, t)),
        (Val::Left(x), Ty::Either(a, _)) => val_has_type(x, a),
        (Val::Right(x), Ty::Either(_, b)) => val_has_type(x, b),
        (Val::None, Ty::Option(_)) => true,
        (Val::Some(x), Ty::Option(a)) => val_has_type(x, a),
        _ => false,
    }
}

/// Render a value as Simfony source text at its type, in canonical notation
/// (decimal for integers; not the library's printer: this is the harness's own writer).
pub fn val_expr(v: &Val, ty: &Ty) -> Expr {
    match (v, ty) {
        (Val::Bool(b), _) => Expr::Lit(Lit::Bool(*b)),
        (Val::U(_, b), _) => Expr::Lit(Lit::Dec(b.to_decimal())),
        (Val::Tuple(vs), Ty::Tuple(ts)) => Expr::Tuple(vs.iter().zip(ts).map(|(v, t)| val_expr(v, t)).collect()),
        (Val::Array(vs), Ty::Array(t, _)) => Expr::Array(vs.iter().map(|v| val_expr(v, t)).collect()),
        (Val::List(vs), Ty::List(t, _)) => Expr::List(vs.iter().map(|v| val_expr(v, t)).collect()),
        (Val::Left(x), Ty::Either(a, _)) => Expr::Left(Box::new(val_expr(x, a))),
        (Val::Right(x), Ty::Either(_, b)) => Expr::Right(Box::new(val_expr(x, b))),
        (Val::None, _) => Expr::None,
        (Val::Some(x), Ty::Option(a)) => Expr::Some(Box::new(val_expr(x, a))),
        _ => panic!("val_expr: {v:?} at {}", ty.render()),
    }
}

// =============================================================================================
// R4 literals

#[derive(Debug, Clone, PartialEq, Eq)]
pub enum LitResult {
    Ok(Val),
    Reject(&'static str),
}

pub fn literal(l: &Lit, ty: &Ty) -> LitResult {
    use LitResult::*;
    match l {
        Lit::Bool(b) => match ty {
            Ty::Bool => Ok(Val::Bool(*b)),
            _ => Reject("boolean literal at non-bool type"),
        },
        Lit::Dec(s) => {
            let Ty::U(n) = ty else { return Reject("decimal literal at non-integer type") };
            let digits: String = s.chars().filter(|c| *c != '_').collect();
            let Some(v) = Big::parse_radix(&digits, 10) else { return Reject("no digits / invalid digit") };
            if v.lt(&Big::pow2(*n as usize)) {
                Ok(Val::U(*n, v))
            } else {
                Reject("decimal value does not fit")
            }
        }
        Lit::Bin(s) => {
            let Ty::U(n) = ty else { return Reject("binary literal at non-integer type") };
            let digits: String = s.chars().filter(|c| *c != '_').collect();
            if digits.is_empty() {
                return Reject("no digits");
            }
            if digits.len() != *n as usize {
                return Reject("binary digit count != width");
            }
            match Big::parse_radix(&digits, 2) {
                Some(v) => Ok(Val::U(*n, v)),
                None => Reject("invalid digit"),
            }
        }
        Lit::Hex(s) => {
            let digits: String = s.chars().filter(|c| *c != '_').collect();
            if digits.is_empty() {
                return Reject("no digits");
            }
            match ty {
                Ty::U(n) => {
                    if *n < 8 || digits.len() != (*n as usize) / 4 {
                        return Reject("hex digit count != width/4");
                    }
                    match Big::parse_radix(&digits, 16) {
                        Some(v) => Ok(Val::U(*n, v)),
                        None => Reject("invalid digit"),
                    }
                }
                Ty::Array(el, k) if **el == Ty::U(8) => {
                    if digits.len() != 2 * *k {
                        return Reject("hex digit count != 2*len");
                    }
                    let cs: Vec<char> = digits.chars().collect();
                    let mut out = vec![];
                    for pair in cs.chunks(2) {
                        let hi = pair[0].to_digit(16);
                        let lo = pair[1].to_digit(16);
                        match (hi, lo) {
                            (Some(h), Some(l)) => out.push(Val::u(8, (h * 16 + l) as u128)),
                            _ => return Reject("invalid digit"),
                        }
                    }
                    Ok(Val::Array(out))
                }
                _ => Reject("hex literal at non-integer, non-byte-array type"),
            }
        }
    }
}

// =============================================================================================
// R1 static rules

#[derive(Debug, Clone, PartialEq, Eq)]
pub enum Verdict {
    WellTyped,
    IllTyped(String),
    /// the book / C04 do not say; such programs are not judged
    Unspecified(String),
}

#[derive(Debug, Clone)]
pub struct FnSig {
    pub params: Vec<(String, Ty)>, // resolved types
    pub ret: Ty,                   // resolved
}

#[derive(Debug, Clone, Default)]
pub struct StaticInfo {
    pub witnesses: Vec<(String, Ty)>,
    pub params: Vec<(String, Ty)>,
    pub fns: HashMap<String, FnSig>,
    pub aliases: AliasMap,
}

enum TErr {
    Ill(String),
    Unspec(String),
}

fn ill<T>(s: impl Into<String>) -> Result<T, TErr> {
    Err(TErr::Ill(s.into()))
}

pub const KEYWORDS: [&str; 6] = ["fn", "let", "match", "type", "mod", "const"];
pub const BUILTIN_TYPES: [&str; 13] = ["Either", "Option", "bool", "List", "u1", "u2", "u4", "u8", "u16", "u32", "u64", "u128", "u256"];
pub const BUILTIN_FUNCTIONS: [&str; 11] = ["unwrap_left", "unwrap_right", "for_while", "is_none", "unwrap", "assert", "panic", "match", "into", "fold", "dbg"];
pub const VALUE_WORDS: [&str; 7] = ["true", "false", "None", "Some", "Left", "Right", "list"];

struct Checker {
    aliases: AliasMap,
    fns: HashMap<String, FnSig>,
    scopes: Vec<HashMap<String, Ty>>,
    witnesses: Vec<(String, Ty)>,
    params: Vec<(String, Ty)>,
    in_main: bool,
}

impl Checker {
    fn res(&self, t: &Ty) -> Result<Ty, TErr> {
        resolve(t, &self.aliases).map_err(|n| TErr::Ill(format!("undefined alias / invalid type {n}")))
    }
    fn lookup(&self, n: &str) -> Option<&Ty> {
        self.scopes.iter().rev().find_map(|s| s.get(n))
    }
    fn bind_pat(&mut self, p: &Pat, ty: &Ty) -> Result<(), TErr> {
        let mut names = vec![];
        p.names(&mut names);
        let mut sorted = names.clone();
        sorted.sort();
        sorted.dedup();
        if sorted.len() != names.len() {
            return ill("name bound twice in one pattern");
        }
        let mut out = vec![];
        Self::match_pat(p, ty, &mut out)?;
        for (n, t) in out {
            self.scopes.last_mut().unwrap().insert(n, t);
        }
        Ok(())
    }
    fn match_pat(p: &Pat, ty: &Ty, out: &mut Vec<(String, Ty)>) -> Result<(), TErr> {
        match (p, ty) {
            (Pat::Id(n), _) => {
                out.push((n.clone(), ty.clone()));
                Ok(())
            }
            (Pat::Ignore, _) => Ok(()),
            (Pat::Tuple(ps), Ty::Tuple(ts)) if ps.len() == ts.len() => {
                for (p, t) in ps.iter().zip(ts) {
                    Self::match_pat(p, t, out)?;
                }
                Ok(())
            }
            (Pat::Array(ps), Ty::Array(t, n)) if ps.len() == *n => {
                for p in ps {
                    Self::match_pat(p, t, out)?;
                }
                Ok(())
            }
            _ => ill("pattern shape does not match type"),
        }
    }

    fn block(&mut self, stmts: &[Stmt], last: &Option<Box<Expr>>, ty: &Ty) -> Result<(), TErr> {
        self.scopes.push(HashMap::new());
        let r = (|| {
            for s in stmts {
                match s {
                    Stmt::Let(p, t, e) => {
                        let t = self.res(t)?;
                        self.check(e, &t)?;
                        self.bind_pat(p, &t)?;
                    }
                    Stmt::Expr(e) => self.check(e, &Ty::unit())?,
                }
            }
            match last {
                Some(e) => self.check(e, ty),
                None if ty.is_unit() => Ok(()),
                None => ill("block without final expression at non-unit type"),
            }
        })();
        self.scopes.pop();
        r
    }

    fn check_args(&mut self, args: &[Expr], tys: &[Ty]) -> Result<(), TErr> {
        if args.len() != tys.len() {
            return ill(format!("expected {} arguments, found {}", tys.len(), args.len()));
        }
        for (a, t) in args.iter().zip(tys) {
            self.check(a, t)?;
        }
        Ok(())
    }

    fn check(&mut self, e: &Expr, ty: &Ty) -> Result<(), TErr> {
        match e {
            Expr::Lit(l) => match literal(l, ty) {
                LitResult::Ok(_) => Ok(()),
                LitResult::Reject(r) => ill(r),
            },
            Expr::Var(n) => match self.lookup(n) {
                None => ill(format!("undefined variable {n}")),
                Some(t) if t == ty => Ok(()),
                Some(_) => ill(format!("variable {n} has another type")),
            },
            Expr::Witness(n) => {
                if !self.in_main {
                    return ill("witness outside main");
                }
                if self.witnesses.iter().any(|(m, _)| m == n) {
                    return ill("witness name used twice");
                }
                self.witnesses.push((n.clone(), ty.clone()));
                Ok(())
            }
            Expr::Param(n) => {
                match self.params.iter().find(|(m, _)| m == n) {
                    Some((_, t)) if t == ty => {}
                    Some(_) => return ill("parameter used at two types"),
                    None => self.params.push((n.clone(), ty.clone())),
                }
                Ok(())
            }
            Expr::Paren(x) => self.check(x, ty),
            Expr::Tuple(xs) => match ty {
                Ty::Tuple(ts) if ts.len() == xs.len() => {
                    for (x, t) in xs.iter().zip(ts) {
                        self.check(x, t)?;
                    }
                    Ok(())
                }
                _ => ill("tuple expression at non-matching type"),
            },
            Expr::Array(xs) => match ty {
                Ty::Array(t, n) if *n == xs.len() => {
                    for x in xs {
                        self.check(x, t)?;
                    }
                    Ok(())
                }
                _ => ill("array expression at non-matching type"),
            },
            Expr::List(xs) => match ty {
                Ty::List(t, n) if xs.len() < *n => {
                    for x in xs {
                        self.check(x, t)?;
                    }
                    Ok(())
                }
                _ => ill("list expression at non-matching type / too long"),
            },
            Expr::Left(x) => match ty {
                Ty::Either(a, _) => self.check(x, a),
                _ => ill("Left at non-Either type"),
            },
            Expr::Right(x) => match ty {
                Ty::Either(_, b) => self.check(x, b),
                _ => ill("Right at non-Either type"),
            },
            Expr::None => match ty {
                Ty::Option(_) => Ok(()),
                _ => ill("None at non-Option type"),
            },
            Expr::Some(x) => match ty {
                Ty::Option(a) => self.check(x, a),
                _ => ill("Some at non-Option type"),
            },
            Expr::Block(stmts, last) => self.block(stmts, last, ty),
            Expr::Match(s, a, b) => {
                let sty = match (&a.pat, &b.pat) {
                    (MPat::False, MPat::True) | (MPat::True, MPat::False) => Ty::Bool,
                    (MPat::None, MPat::Some(_, t)) | (MPat::Some(_, t), MPat::None) => Ty::opt(self.res(t)?),
                    (MPat::Left(_, l), MPat::Right(_, r)) | (MPat::Right(_, r), MPat::Left(_, l)) => {
                        Ty::either(self.res(l)?, self.res(r)?)
                    }
                    _ => return ill("match arms are not complementary"),
                };
                self.check(s, &sty)?;
                for arm in [a, b] {
                    self.scopes.push(HashMap::new());
                    match &arm.pat {
                        MPat::Some(n, t) | MPat::Left(n, t) | MPat::Right(n, t) => {
                            let t = self.res(t)?;
                            self.scopes.last_mut().unwrap().insert(n.clone(), t);
                        }
                        _ => {}
                    }
                    let r = self.check(&arm.body, ty);
                    self.scopes.pop();
                    r?;
                }
                Ok(())
            }
            Expr::Call(name, args) => self.call(name, args, ty),
        }
    }

    fn call(&mut self, name: &CallName, args: &[Expr], ty: &Ty) -> Result<(), TErr> {
        match name {
            CallName::Jet(j) => {
                if j == "verify" || j == "check_sig_verify" {
                    return ill("reserved jet");
                }
                let Some((ptys, rty)) = jets::signature(j) else {
                    return Err(TErr::Unspec(format!("jet {j} not in harness table")));
                };
                if args.len() != ptys.len() {
                    return ill("jet arity");
                }
                if &rty != ty {
                    return ill("jet result type");
                }
                self.check_args(args, &ptys)
            }
            CallName::UnwrapLeft(r) => {
                let r = self.res(r)?;
                self.check_args(args, &[Ty::either(ty.clone(), r)])
            }
            CallName::UnwrapRight(l) => {
                let l = self.res(l)?;
                self.check_args(args, &[Ty::either(l, ty.clone())])
            }
            CallName::IsNone(t) => {
                let t = self.res(t)?;
                if *ty != Ty::Bool {
                    return ill("is_none result is bool");
                }
                self.check_args(args, &[Ty::opt(t)])
            }
            CallName::Unwrap => self.check_args(args, &[Ty::opt(ty.clone())]),
            CallName::Assert => {
                if !ty.is_unit() {
                    return ill("assert! result is ()");
                }
                self.check_args(args, &[Ty::Bool])
            }
            CallName::Panic => self.check_args(args, &[]),
            CallName::Dbg => self.check_args(args, &[ty.clone()]),
            CallName::Cast(src) => {
                let src = self.res(src)?;
                if !same_layout(&src, ty) {
                    return ill("cast between different layouts");
                }
                self.check_args(args, &[src])
            }
            CallName::Fn(f) => {
                let Some(sig) = self.fns.get(f).cloned() else { return ill(format!("undefined function {f}")) };
                if args.len() != sig.params.len() {
                    return ill("function arity");
                }
                if &sig.ret != ty {
                    return ill("function result type");
                }
                let tys: Vec<Ty> = sig.params.iter().map(|p| p.1.clone()).collect();
                self.check_args(args, &tys)
            }
            CallName::Fold(f, bound) => {
                let Some(sig) = self.fns.get(f).cloned() else { return ill(format!("undefined function {f}")) };
                if !(bound.is_power_of_two() && *bound >= 2) {
                    return ill("fold bound");
                }
                if sig.params.len() != 2 || sig.params[1].1 != sig.ret {
                    return ill("function not foldable");
                }
                if &sig.ret != ty {
                    return ill("fold result type");
                }
                let tys = [Ty::list(sig.params[0].1.clone(), *bound), sig.params[1].1.clone()];
                self.check_args(args, &tys)
            }
            CallName::ForWhile(f) => {
                let Some(sig) = self.fns.get(f).cloned() else { return ill(format!("undefined function {f}")) };
                if sig.params.len() != 3 {
                    return ill("function not loopable (arity)");
                }
                match &sig.ret {
                    Ty::Either(_, r) if **r == sig.params[0].1 => {}
                    _ => return ill("function not loopable (result)"),
                }
                match &sig.params[2].1 {
                    Ty::U(w) if *w <= 16 => {}
                    _ => return ill("function not loopable (counter)"),
                }
                if &sig.ret != ty {
                    return ill("for_while result type");
                }
                let tys = [sig.params[0].1.clone(), sig.params[1].1.clone()];
                self.check_args(args, &tys)
            }
        }
    }
}

fn is_reserved_name(n: &str) -> bool {
    KEYWORDS.contains(&n) || BUILTIN_TYPES.contains(&n) || BUILTIN_FUNCTIONS.contains(&n) || BUILTIN_ALIASES.contains(&n) || VALUE_WORDS.contains(&n)
}

/// R1: classify a program; on success also return the witness / parameter tables.
pub fn check_program(p: &Program) -> (Verdict, StaticInfo) {
    let mut c = Checker { aliases: HashMap::new(), fns: HashMap::new(), scopes: vec![], witnesses: vec![], params: vec![], in_main: false };
    let mut mains = 0;
    let mut unspec: Option<String> = None;
    let r: Result<(), TErr> = (|| {
        for it in &p.items {
            match it {
                Item::Alias(n, t) => {
                    if c.aliases.contains_key(n) {
                        unspec.get_or_insert("alias redefined".into());
                    }
                    if is_reserved_name(n) {
                        unspec.get_or_insert("reserved word as alias name".into());
                    }
                    let t = c.res(t)?;
                    c.aliases.insert(n.clone(), t);
                }
                Item::Mod(..) => {}
                Item::Fn(f) if f.name == "main" => {
                    mains += 1;
                    if !f.params.is_empty() {
                        return ill("main has parameters");
                    }
                    if let Some(t) = &f.ret {
                        if !c.res(t)?.is_unit() {
                            return ill("main has a result");
                        }
                    }
                    c.in_main = true;
                    c.scopes.clear();
                    let r = c.block(&f.body.0, &f.body.1, &Ty::unit());
                    c.in_main = false;
                    r?;
                }
                Item::Fn(f) => {
                    if c.fns.contains_key(&f.name) {
                        unspec.get_or_insert("function redefined".into());
                    }
                    let mut params = vec![];
                    for (n, t) in &f.params {
                        if params.iter().any(|(m, _): &(String, Ty)| m == n) {
                            unspec.get_or_insert("repeated parameter name".into());
                        }
                        params.push((n.clone(), c.res(t)?));
                    }
                    let ret = match &f.ret {
                        Some(t) => c.res(t)?,
                        None => Ty::unit(),
                    };
                    c.scopes.clear();
                    c.scopes.push(params.iter().cloned().collect());
                    let r = c.block(&f.body.0, &f.body.1, &ret);
                    c.scopes.clear();
                    r?;
                    c.fns.insert(f.name.clone(), FnSig { params, ret });
                }
            }
        }
        if mains == 0 {
            return ill("no main");
        }
        if mains > 1 {
            return ill("main defined twice");
        }
        Ok(())
    })();
    let info = StaticInfo { witnesses: c.witnesses, params: c.params, fns: c.fns, aliases: c.aliases };
    let v = match (r, unspec) {
        (Err(TErr::Unspec(s)), _) => Verdict::Unspecified(s),
        (_, Some(s)) => Verdict::Unspecified(s),
        (Ok(()), None) => Verdict::WellTyped,
        (Err(TErr::Ill(s)), None) => Verdict::IllTyped(s),
    };
    (v, info)
}

// =============================================================================================
// R2 dynamic semantics

#[derive(Debug, Clone, PartialEq, Eq)]
pub enum Stop {
    /// the program panics at run time (assert!/unwrap/panic!/failing jet)
    Panic(String),
    /// the evaluator cannot continue (ill-typed program, missing witness): harness-side problem
    Stuck(String),
}

#[derive(Debug, Clone)]
pub struct TraceEvent {
    pub kind: &'static str,
    pub val: Val,
    pub ty: Ty,
}

pub struct Evaluator<'a> {
    pub aliases: AliasMap,
    pub fns: HashMap<String, &'a FnDef>,
    pub witnesses: &'a HashMap<String, Val>,
    pub params: &'a HashMap<String, Val>,
    pub trace: Vec<TraceEvent>,
    pub record_trace: bool,
    pub steps: u64,
}

type Env = Vec<HashMap<String, Val>>;

fn stuck<T>(s: impl Into<String>) -> Result<T, Stop> {
    Err(Stop::Stuck(s.into()))
}

impl<'a> Evaluator<'a> {
    pub fn new(p: &'a Program, witnesses: &'a HashMap<String, Val>, params: &'a HashMap<String, Val>) -> Result<Self, Stop> {
        let mut aliases = AliasMap::new();
        let mut fns = HashMap::new();
        for it in &p.items {
            match it {
                Item::Alias(n, t) => {
                    let t = resolve(t, &aliases).map_err(|e| Stop::Stuck(format!("alias {e}")))?;
                    aliases.insert(n.clone(), t);
                }
                Item::Fn(f) => {
                    fns.insert(f.name.clone(), f);
                }
                Item::Mod(..) => {}
            }
        }
        Ok(Evaluator { aliases, fns, witnesses, params, trace: vec![], record_trace: false, steps: 0 })
    }

    /// Run `main`. Ok(()) = success, Err(Panic) = failure, Err(Stuck) = harness problem.
    pub fn run_main(&mut self) -> Result<(), Stop> {
        let Some(f) = self.fns.get("main").copied() else { return stuck("no main") };
        let mut env: Env = vec![];
        self.block(&f.body.0, &f.body.1, &Ty::unit(), &mut env).map(|_| ())
    }

    fn res(&self, t: &Ty) -> Result<Ty, Stop> {
        resolve(t, &self.aliases).map_err(|e| Stop::Stuck(format!("resolve {e}")))
    }

    fn bind(p: &Pat, v: &Val, scope: &mut HashMap<String, Val>) -> Result<(), Stop> {
        match (p, v) {
            (Pat::Id(n), _) => {
                scope.insert(n.clone(), v.clone());
                Ok(())
            }
            (Pat::Ignore, _) => Ok(()),
            (Pat::Tuple(ps), Val::Tuple(vs)) | (Pat::Array(ps), Val::Array(vs)) if ps.len() == vs.len() => {
                for (p, v) in ps.iter().zip(vs) {
                    Self::bind(p, v, scope)?;
                }
                Ok(())
            }
            _ => stuck("pattern does not match value"),
        }
    }

    fn block(&mut self, stmts: &[Stmt], last: &Option<Box<Expr>>, ty: &Ty, env: &mut Env) -> Result<Val, Stop> {
        env.push(HashMap::new());
        let r = (|| {
            for s in stmts {
                match s {
                    Stmt::Let(p, t, e) => {
                        let t = self.res(t)?;
                        let v = self.eval(e, &t, env)?;
                        Self::bind(p, &v, env.last_mut().unwrap())?;
                    }
                    Stmt::Expr(e) => {
                        self.eval(e, &Ty::unit(), env)?;
                    }
                }
            }
            match last {
                Some(e) => self.eval(e, ty, env),
                None => Ok(Val::unit()),
            }
        })();
        env.pop();
        r
    }

    fn ev(&mut self, kind: &'static str, v: &Val, ty: &Ty) {
        if self.record_trace {
            self.trace.push(TraceEvent { kind, val: v.clone(), ty: ty.clone() });
        }
    }

    pub fn eval(&mut self, e: &Expr, ty: &Ty, env: &mut Env) -> Result<Val, Stop> {
        self.steps += 1;
        match e {
            Expr::Lit(l) => match literal(l, ty) {
                LitResult::Ok(v) => Ok(v),
                LitResult::Reject(r) => stuck(format!("literal: {r}")),
            },
            Expr::Var(n) => match env.iter().rev().find_map(|s| s.get(n)) {
                Some(v) => Ok(v.clone()),
                None => stuck(format!("unbound variable {n}")),
            },
            Expr::Witness(n) => match self.witnesses.get(n) {
                Some(v) => Ok(v.clone()),
                None => stuck(format!("missing witness {n}")),
            },
            Expr::Param(n) => match self.params.get(n) {
                Some(v) => Ok(v.clone()),
                None => stuck(format!("missing argument {n}")),
            },
            Expr::Paren(x) => self.eval(x, ty, env),
            Expr::Tuple(xs) => match ty {
                Ty::Tuple(ts) if ts.len() == xs.len() => {
                    let mut out = vec![];
                    for (x, t) in xs.iter().zip(ts) {
                        out.push(self.eval(x, t, env)?);
                    }
                    Ok(Val::Tuple(out))
                }
                _ => stuck("tuple type"),
            },
            Expr::Array(xs) => match ty {
                Ty::Array(t, n) if *n == xs.len() => {
                    let mut out = vec![];
                    for x in xs {
                        out.push(self.eval(x, t, env)?);
                    }
                    Ok(Val::Array(out))
                }
                _ => stuck("array type"),
            },
            Expr::List(xs) => match ty {
                Ty::List(t, n) if xs.len() < *n => {
                    let mut out = vec![];
                    for x in xs {
                        out.push(self.eval(x, t, env)?);
                    }
                    Ok(Val::List(out))
                }
                _ => stuck("list type"),
            },
            Expr::Left(x) => match ty {
                Ty::Either(a, _) => Ok(Val::Left(Box::new(self.eval(x, a, env)?))),
                _ => stuck("Left type"),
            },
            Expr::Right(x) => match ty {
                Ty::Either(_, b) => Ok(Val::Right(Box::new(self.eval(x, b, env)?))),
                _ => stuck("Right type"),
            },
            Expr::None => Ok(Val::None),
            Expr::Some(x) => match ty {
                Ty::Option(a) => Ok(Val::Some(Box::new(self.eval(x, a, env)?))),
                _ => stuck("Some type"),
            },
            Expr::Block(stmts, last) => self.block(stmts, last, ty, env),
            Expr::Match(s, a, b) => {
                let sty = match (&a.pat, &b.pat) {
                    (MPat::False, MPat::True) | (MPat::True, MPat::False) => Ty::Bool,
                    (MPat::None, MPat::Some(_, t)) | (MPat::Some(_, t), MPat::None) => Ty::opt(self.res(t)?),
                    (MPat::Left(_, l), MPat::Right(_, r)) | (MPat::Right(_, r), MPat::Left(_, l)) => {
                        Ty::either(self.res(l)?, self.res(r)?)
                    }
                    _ => return stuck("match arms"),
                };
                let sv = self.eval(s, &sty, env)?;
                for arm in [a, b] {
                    let binding: Option<Option<(String, Val)>> = match (&arm.pat, &sv) {
                        (MPat::False, Val::Bool(false)) | (MPat::True, Val::Bool(true)) | (MPat::None, Val::None) => Some(None),
                        (MPat::Some(n, _), Val::Some(x)) | (MPat::Left(n, _), Val::Left(x)) | (MPat::Right(n, _), Val::Right(x)) => {
                            Some(Some((n.clone(), (**x).clone())))
                        }
                        _ => None,
                    };
                    if let Some(b) = binding {
                        let mut scope = HashMap::new();
                        if let Some((n, v)) = b {
                            scope.insert(n, v);
                        }
                        env.push(scope);
                        let r = self.eval(&arm.body, ty, env);
                        env.pop();
                        return r;
                    }
                }
                stuck("no arm matched")
            }
            Expr::Call(name, args) => self.call(name, args, ty, env),
        }
    }

    fn args(&mut self, args: &[Expr], tys: &[Ty], env: &mut Env) -> Result<Vec<Val>, Stop> {
        if args.len() != tys.len() {
            return stuck("arity");
        }
        let mut out = vec![];
        for (a, t) in args.iter().zip(tys) {
            out.push(self.eval(a, t, env)?);
        }
        Ok(out)
    }

    fn apply(&mut self, f: &'a FnDef, args: Vec<Val>) -> Result<Val, Stop> {
        let ret = match &f.ret {
            Some(t) => self.res(t)?,
            None => Ty::unit(),
        };
        let mut scope = HashMap::new();
        for ((n, _), v) in f.params.iter().zip(args) {
            scope.insert(n.clone(), v);
        }
        let mut env: Env = vec![scope];
        self.block(&f.body.0, &f.body.1, &ret, &mut env)
    }

    fn param_tys(&self, f: &FnDef) -> Result<Vec<Ty>, Stop> {
        f.params.iter().map(|(_, t)| self.res(t)).collect()
    }

    fn call(&mut self, name: &CallName, args: &[Expr], ty: &Ty, env: &mut Env) -> Result<Val, Stop> {
        match name {
            CallName::Jet(j) => {
                let Some((ptys, _)) = jets::signature(j) else { return stuck(format!("unknown jet {j}")) };
                let vs = self.args(args, &ptys, env)?;
                for (v, t) in vs.iter().zip(&ptys) {
                    self.ev("jet", v, t);
                }
                match jets::apply(j, &vs) {
                    Some(Ok(v)) => Ok(v),
                    Some(Err(())) => Err(Stop::Panic(format!("jet {j} failed"))),
                    None => stuck(format!("jet {j} has no model")),
                }
            }
            CallName::UnwrapLeft(r) => {
                let t = Ty::either(ty.clone(), self.res(r)?);
                let v = self.args(args, &[t.clone()], env)?.pop().unwrap();
                self.ev("unwrap_left", &v, &t);
                match v {
                    Val::Left(x) => Ok(*x),
                    _ => Err(Stop::Panic("unwrap_left of Right".into())),
                }
            }
            CallName::UnwrapRight(l) => {
                let t = Ty::either(self.res(l)?, ty.clone());
                let v = self.args(args, &[t.clone()], env)?.pop().unwrap();
                self.ev("unwrap_right", &v, &t);
                match v {
                    Val::Right(x) => Ok(*x),
                    _ => Err(Stop::Panic("unwrap_right of Left".into())),
                }
            }
            CallName::IsNone(t) => {
                let t = Ty::opt(self.res(t)?);
                let v = self.args(args, &[t], env)?.pop().unwrap();
                Ok(Val::Bool(v == Val::None))
            }
            CallName::Unwrap => {
                let t = Ty::opt(ty.clone());
                let v = self.args(args, &[t.clone()], env)?.pop().unwrap();
                self.ev("unwrap", &v, &t);
                match v {
                    Val::Some(x) => Ok(*x),
                    _ => Err(Stop::Panic("unwrap of None".into())),
                }
            }
            CallName::Assert => {
                let v = self.args(args, &[Ty::Bool], env)?.pop().unwrap();
                self.ev("assert", &v, &Ty::Bool);
                match v {
                    Val::Bool(true) => Ok(Val::unit()),
                    _ => Err(Stop::Panic("assert!(false)".into())),
                }
            }
            CallName::Panic => {
                self.args(args, &[], env)?;
                Err(Stop::Panic("panic!".into()))
            }
            CallName::Dbg => {
                let v = self.args(args, &[ty.clone()], env)?.pop().unwrap();
                self.ev("dbg", &v, ty);
                Ok(v)
            }
            CallName::Cast(src) => {
                let src = self.res(src)?;
                let v = self.args(args, &[src.clone()], env)?.pop().unwrap();
                match cast_val(&v, &src, ty) {
                    Some(v) => Ok(v),
                    None => stuck("cast between different layouts"),
                }
            }
            CallName::Fn(f) => {
                let Some(f) = self.fns.get(f).copied() else { return stuck("undefined function") };
                let tys = self.param_tys(f)?;
                let vs = self.args(args, &tys, env)?;
                self.apply(f, vs)
            }
            CallName::Fold(f, bound) => {
                let Some(f) = self.fns.get(f).copied() else { return stuck("undefined function") };
                let tys = self.param_tys(f)?;
                if tys.len() != 2 {
                    return stuck("fold arity");
                }
                let lt = Ty::list(tys[0].clone(), *bound);
                let mut vs = self.args(args, &[lt, tys[1].clone()], env)?;
                let mut acc = vs.pop().unwrap();
                let Val::List(els) = vs.pop().unwrap() else { return stuck("fold list") };
                for el in els {
                    acc = self.apply(f, vec![el, acc])?;
                }
                Ok(acc)
            }
            CallName::ForWhile(f) => {
                let Some(f) = self.fns.get(f).copied() else { return stuck("undefined function") };
                let tys = self.param_tys(f)?;
                if tys.len() != 3 {
                    return stuck("for_while arity");
                }
                let Ty::U(w) = tys[2] else { return stuck("for_while counter") };
                let mut vs = self.args(args, &[tys[0].clone(), tys[1].clone()], env)?;
                let ctx = vs.pop().unwrap();
                let mut acc = vs.pop().unwrap();
                let n: u128 = 1u128 << w;
                for i in 0..n {
                    match self.apply(f, vec![acc, ctx.clone(), Val::u(w, i)])? {
                        Val::Left(b) => return Ok(Val::Left(b)),
                        Val::Right(a) => acc = *a,
                        _ => return stuck("for_while body result"),
                    }
                }
                Ok(Val::Right(Box::new(acc)))
            }
        }
    }
}

/// Convenience: evaluate main of a (well-typed) program.
pub fn run_program(p: &Program, witnesses: &HashMap<String, Val>, params: &HashMap<String, Val>) -> Result<(), Stop> {
    let mut ev = Evaluator::new(p, witnesses, params)?;
    ev.run_main()
}
