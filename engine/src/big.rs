//! Minimal unsigned big integer used by the reference models (R4 literals, R3 integer bits).
//! Little-endian base 2^32 limbs, no leading-zero invariant needed by callers (normalised on demand).

#[derive(Clone, Debug, PartialEq, Eq, Hash)]
pub struct Big(Vec<u32>); // invariant: no trailing zero limbs (normalised)

impl PartialOrd for Big {
    fn partial_cmp(&self, o: &Self) -> Option<std::cmp::Ordering> {
        Some(self.cmp_big(o))
    }
}
impl Ord for Big {
    fn cmp(&self, o: &Self) -> std::cmp::Ordering {
        self.cmp_big(o)
    }
}

impl Big {
    pub fn zero() -> Self {
        Big(vec![])
    }
    pub fn from_u128(mut v: u128) -> Self {
        let mut l = vec![];
        while v != 0 {
            l.push(v as u32);
            v >>= 32;
        }
        Big(l)
    }
    pub fn pow2(k: usize) -> Self {
        let mut l = vec![0u32; k / 32 + 1];
        l[k / 32] = 1 << (k % 32);
        Big(l)
    }
    fn norm(mut self) -> Self {
        while self.0.last() == Some(&0) {
            self.0.pop();
        }
        self
    }
    pub fn is_zero(&self) -> bool {
        self.0.is_empty()
    }
    pub fn mul_small(&self, m: u32) -> Self {
        let mut out = Vec::with_capacity(self.0.len() + 1);
        let mut carry = 0u64;
        for &x in &self.0 {
            let t = x as u64 * m as u64 + carry;
            out.push(t as u32);
            carry = t >> 32;
        }
        if carry != 0 {
            out.push(carry as u32);
        }
        Big(out).norm()
    }
    pub fn add_small(&self, a: u32) -> Self {
        let mut out = self.0.clone();
        let mut carry = a as u64;
        let mut i = 0;
        while carry != 0 {
            if i == out.len() {
                out.push(0);
            }
            let t = out[i] as u64 + carry;
            out[i] = t as u32;
            carry = t >> 32;
            i += 1;
        }
        Big(out).norm()
    }
    pub fn add(&self, o: &Big) -> Self {
        let n = self.0.len().max(o.0.len());
        let mut out = Vec::with_capacity(n + 1);
        let mut carry = 0u64;
        for i in 0..n {
            let t = *self.0.get(i).unwrap_or(&0) as u64 + *o.0.get(i).unwrap_or(&0) as u64 + carry;
            out.push(t as u32);
            carry = t >> 32;
        }
        if carry != 0 {
            out.push(carry as u32);
        }
        Big(out).norm()
    }
    /// self - o, requires self >= o
    pub fn sub(&self, o: &Big) -> Self {
        assert!(*self >= *o);
        let mut out = Vec::with_capacity(self.0.len());
        let mut borrow = 0i64;
        for i in 0..self.0.len() {
            let mut t = self.0[i] as i64 - *o.0.get(i).unwrap_or(&0) as i64 - borrow;
            if t < 0 {
                t += 1 << 32;
                borrow = 1;
            } else {
                borrow = 0;
            }
            out.push(t as u32);
        }
        Big(out).norm()
    }
    pub fn cmp_big(&self, o: &Big) -> std::cmp::Ordering {
        if self.0.len() != o.0.len() {
            return self.0.len().cmp(&o.0.len());
        }
        for i in (0..self.0.len()).rev() {
            if self.0[i] != o.0[i] {
                return self.0[i].cmp(&o.0[i]);
            }
        }
        std::cmp::Ordering::Equal
    }
    pub fn lt(&self, o: &Big) -> bool {
        self.cmp_big(o) == std::cmp::Ordering::Less
    }
    pub fn bit(&self, k: usize) -> bool {
        self.0.get(k / 32).map_or(false, |l| (l >> (k % 32)) & 1 == 1)
    }
    pub fn bit_len(&self) -> usize {
        match self.0.last() {
            None => 0,
            Some(l) => (self.0.len() - 1) * 32 + (32 - l.leading_zeros() as usize),
        }
    }
    /// big-endian bits, exactly `n` of them (value must fit)
    pub fn to_bits(&self, n: usize) -> Vec<bool> {
        assert!(self.bit_len() <= n, "value does not fit");
        (0..n).rev().map(|k| self.bit(k)).collect()
    }
    pub fn from_bits(bits: &[bool]) -> Self {
        let n = bits.len();
        let mut l = vec![0u32; n / 32 + 1];
        for (i, &b) in bits.iter().enumerate() {
            if b {
                let k = n - 1 - i;
                l[k / 32] |= 1 << (k % 32);
            }
        }
        Big(l).norm()
    }
    /// Parse digits in the given radix (2, 10, 16); `None` on an invalid digit or empty string.
    pub fn parse_radix(s: &str, radix: u32) -> Option<Self> {
        if s.is_empty() {
            return None;
        }
        let mut v = Big::zero();
        for c in s.chars() {
            let d = c.to_digit(radix)?;
            v = v.mul_small(radix).add_small(d);
        }
        Some(v)
    }
    fn divrem_small(&self, d: u32) -> (Big, u32) {
        let mut out = vec![0u32; self.0.len()];
        let mut rem = 0u64;
        for i in (0..self.0.len()).rev() {
            let cur = (rem << 32) | self.0[i] as u64;
            out[i] = (cur / d as u64) as u32;
            rem = cur % d as u64;
        }
        (Big(out).norm(), rem as u32)
    }
    pub fn to_decimal(&self) -> String {
        if self.is_zero() {
            return "0".into();
        }
        let mut digits = vec![];
        let mut cur = self.clone();
        while !cur.is_zero() {
            let (q, r) = cur.divrem_small(10);
            digits.push(char::from_digit(r, 10).unwrap());
            cur = q;
        }
        digits.iter().rev().collect()
    }
    /// lowercase hex, padded to `n_digits`
    pub fn to_hex(&self, n_digits: usize) -> String {
        let bits = self.to_bits(n_digits * 4);
        bits.chunks(4)
            .map(|c| {
                let v = c.iter().fold(0u32, |a, &b| a * 2 + b as u32);
                char::from_digit(v, 16).unwrap()
            })
            .collect()
    }
    pub fn to_bin(&self, n_digits: usize) -> String {
        self.to_bits(n_digits).iter().map(|&b| if b { '1' } else { '0' }).collect()
    }
    pub fn to_u128(&self) -> Option<u128> {
        if self.bit_len() > 128 {
            return None;
        }
        let mut v = 0u128;
        for (i, &l) in self.0.iter().enumerate() {
            v |= (l as u128) << (32 * i);
        }
        Some(v)
    }
    /// big-endian bytes, exactly n
    pub fn to_bytes(&self, n: usize) -> Vec<u8> {
        let bits = self.to_bits(n * 8);
        bits.chunks(8).map(|c| c.iter().fold(0u8, |a, &b| (a << 1) | b as u8)).collect()
    }
    pub fn from_bytes(bytes: &[u8]) -> Self {
        let mut v = Big::zero();
        for &b in bytes {
            v = v.mul_small(256).add_small(b as u32);
        }
        v
    }
}

#[cfg(test)]
mod tests {
    use super::*;
    #[test]
    fn roundtrip() {
        let s = "115792089237316195423570985008687907853269984665640564039457584007913129639935";
        let v = Big::parse_radix(s, 10).unwrap();
        assert_eq!(v.to_decimal(), s);
        assert_eq!(v.bit_len(), 256);
        assert_eq!(v.add_small(1), Big::pow2(256));
        assert_eq!(Big::pow2(256).sub(&Big::from_u128(1)), v);
        assert_eq!(Big::from_bits(&v.to_bits(256)), v);
        assert_eq!(Big::from_u128(0xdeadbeef).to_hex(8), "deadbeef");
    }
}
