#![allow(dead_code, unused_imports, unused_variables, clippy::all)]
//! simfony-mc: bounded-exhaustive exploration of simfony against reference models (see /verif/DESIGN.md).

mod big;
mod drive;
mod explore;
mod families;
mod gen;
mod jets;
mod lang;
mod mutate;
mod props;
mod refmodel;
mod replay;
mod report;
mod tokens;

fn usage() -> ! {
    eprintln!("usage: simfony-mc <C01..C20> <quick|thorough> | replay <file> | dump-jets | worker <kind>");
    std::process::exit(2)
}

fn main() {
    drive::install_panic_hook();
    let args: Vec<String> = std::env::args().collect();
    if args.len() < 2 {
        usage();
    }
    // run on a big stack: the compiler under test recurses on program depth
    let child = std::thread::Builder::new()
        .stack_size(512 << 20)
        .spawn(move || real_main(args))
        .expect("spawn main");
    let code = child.join().unwrap_or(2);
    std::process::exit(code);
}

fn real_main(args: Vec<String>) -> i32 {
    match args[1].as_str() {
        "grep-terms" => {
            // simfony-mc grep-terms <needle>... : print family terms (quick families) containing all needles
            let needles: Vec<String> = args[2..].to_vec();
            for (name, fam, depth) in props::c01::families(true) {
                let mut g = gen::TermGen::new(fam.clone());
                for ty in fam.universe.clone() {
                    for t in g.terms(&ty, depth) {
                        let r = lang::render_expr(&t).replace('\n', " ");
                        if needles.iter().all(|n| r.contains(n.as_str())) {
                            println!("{name} {} :: {r}", ty.render());
                        }
                    }
                }
            }
            0
        }
        "sizes" => {
            // print the sizes of the term families (diagnostic)
            for quick in [true, false] {
                for (name, fam, depth) in props::c01::families(quick) {
                    let t = std::time::Instant::now();
                    let mut g = gen::TermGen::new(fam.clone());
                    let mut n = 0usize;
                    for ty in fam.universe.clone() {
                        let k = g.terms(&ty, depth).len();
                        n += k;
                        println!("  {name} {} : {k}", ty.render());
                    }
                    println!("{name} (quick={quick}): {n} terms, {:.1}s", t.elapsed().as_secs_f64());
                }
            }
            0
        }
        "classify" => {
            // diagnostic: under-constrained witness classification of the program of a replay file
            let text = std::fs::read_to_string(&args[2]).expect("read");
            let j: serde_json::Value = serde_json::from_str(&text).expect("json");
            let prog = j["program"].as_str().unwrap_or("");
            for debug in [false, true] {
                match drive::build(prog, simfony::Arguments::default(), debug) {
                    Ok(b) => println!("debug={debug}: (witness nodes, under-constrained) = {:?}", drive::under_constrained_witnesses(&b.compiled)),
                    Err(e) => println!("debug={debug}: {e:?}"),
                }
            }
            0
        }
        "dump-jets" => {
            props::c13::dump_jets();
            0
        }
        "replay" => {
            if args.len() < 3 {
                usage();
            }
            replay::replay_file(&args[2])
        }
        "worker" => {
            if args.len() < 3 {
                usage();
            }
            props::worker(&args[2..])
        }
        id => {
            let tier = args.get(2).map(|s| s.as_str()).or(std::env::var("VERIF_TIER").ok().as_deref().map(|_| "")).unwrap_or("quick").to_string();
            let tier = if tier.is_empty() { std::env::var("VERIF_TIER").unwrap_or_else(|_| "quick".into()) } else { tier };
            if tier != "quick" && tier != "thorough" {
                usage();
            }
            props::run(id, &tier)
        }
    }
}
