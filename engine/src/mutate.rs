//! M_ast: single-edit near misses of harness programs.  Every operator is applied at every site.

use crate::lang::*;

// ---------------------------------------------------------------------------------------------
// generic mutable walkers (pre-order)

pub fn walk_exprs_mut(p: &mut Program, f: &mut dyn FnMut(&mut Expr)) {
    for it in &mut p.items {
        match it {
            Item::Fn(fd) => walk_body(&mut fd.body, f),
            Item::Mod(_, assigns) => {
                for (_, _, e) in assigns {
                    walk_expr(e, f);
                }
            }
            Item::Alias(..) => {}
        }
    }
}

fn walk_body(b: &mut (Vec<Stmt>, Option<Box<Expr>>), f: &mut dyn FnMut(&mut Expr)) {
    for s in &mut b.0 {
        match s {
            Stmt::Let(_, _, e) | Stmt::Expr(e) => walk_expr(e, f),
        }
    }
    if let Some(e) = &mut b.1 {
        walk_expr(e, f);
    }
}

pub fn walk_expr(e: &mut Expr, f: &mut dyn FnMut(&mut Expr)) {
    f(e);
    match e {
        Expr::Lit(_) | Expr::Var(_) | Expr::Witness(_) | Expr::Param(_) | Expr::None => {}
        Expr::Paren(x) | Expr::Left(x) | Expr::Right(x) | Expr::Some(x) => walk_expr(x, f),
        Expr::Tuple(v) | Expr::Array(v) | Expr::List(v) => v.iter_mut().for_each(|x| walk_expr(x, f)),
        Expr::Block(stmts, last) => {
            for s in stmts {
                match s {
                    Stmt::Let(_, _, x) | Stmt::Expr(x) => walk_expr(x, f),
                }
            }
            if let Some(x) = last {
                walk_expr(x, f);
            }
        }
        Expr::Match(s, a, b) => {
            walk_expr(s, f);
            walk_expr(&mut a.body, f);
            walk_expr(&mut b.body, f);
        }
        Expr::Call(_, args) => args.iter_mut().for_each(|x| walk_expr(x, f)),
    }
}

/// every type *occurrence root* (annotation positions), not nested type nodes
pub fn walk_tys_mut(p: &mut Program, f: &mut dyn FnMut(&mut Ty)) {
    for it in &mut p.items {
        match it {
            Item::Alias(_, t) => f(t),
            Item::Fn(fd) => {
                for (_, t) in &mut fd.params {
                    f(t);
                }
                if let Some(t) = &mut fd.ret {
                    f(t);
                }
                for s in &mut fd.body.0 {
                    if let Stmt::Let(_, t, _) = s {
                        f(t);
                    }
                }
            }
            Item::Mod(_, assigns) => {
                for (_, t, _) in assigns {
                    f(t);
                }
            }
        }
    }
    // types inside expressions
    let mut g = |e: &mut Expr| match e {
        Expr::Block(stmts, _) => {
            for s in stmts {
                if let Stmt::Let(_, t, _) = s {
                    f(t);
                }
            }
        }
        Expr::Match(_, a, b) => {
            for arm in [a, b] {
                match &mut arm.pat {
                    MPat::Some(_, t) | MPat::Left(_, t) | MPat::Right(_, t) => f(t),
                    _ => {}
                }
            }
        }
        Expr::Call(name, _) => match name {
            CallName::UnwrapLeft(t) | CallName::UnwrapRight(t) | CallName::IsNone(t) | CallName::Cast(t) => f(t),
            _ => {}
        },
        _ => {}
    };
    walk_exprs_mut(p, &mut g);
}

pub fn walk_pats_mut(p: &mut Program, f: &mut dyn FnMut(&mut Pat)) {
    fn walk_pat(p: &mut Pat, f: &mut dyn FnMut(&mut Pat)) {
        f(p);
        if let Pat::Tuple(v) | Pat::Array(v) = p {
            v.iter_mut().for_each(|q| walk_pat(q, f));
        }
    }
    for it in &mut p.items {
        if let Item::Fn(fd) = it {
            for s in &mut fd.body.0 {
                if let Stmt::Let(pt, _, _) = s {
                    walk_pat(pt, f);
                }
            }
        }
    }
    let mut g = |e: &mut Expr| {
        if let Expr::Block(stmts, _) = e {
            for s in stmts {
                if let Stmt::Let(pt, _, _) = s {
                    walk_pat(pt, f);
                }
            }
        }
    };
    walk_exprs_mut(p, &mut g);
}

/// every statement list (function bodies and block expressions)
pub fn walk_blocks_mut(p: &mut Program, f: &mut dyn FnMut(&mut Vec<Stmt>, &mut Option<Box<Expr>>)) {
    for it in &mut p.items {
        if let Item::Fn(fd) = it {
            let (s, l) = &mut fd.body;
            f(s, l);
        }
    }
    let mut g = |e: &mut Expr| {
        if let Expr::Block(stmts, last) = e {
            f(stmts, last);
        }
    };
    walk_exprs_mut(p, &mut g);
}

// ---------------------------------------------------------------------------------------------
// site-indexed application

fn apply_at<T>(
    p: &Program,
    walk: &dyn Fn(&mut Program, &mut dyn FnMut(&mut T)),
    alts: &dyn Fn(&T) -> Vec<T>,
    op: &str,
    out: &mut Vec<(String, Program)>,
) where
    T: Clone,
{
    // count sites
    let mut n = 0usize;
    let mut probe = p.clone();
    walk(&mut probe, &mut |_t: &mut T| n += 1);
    for k in 0..n {
        let mut options: Vec<T> = vec![];
        let mut i = 0usize;
        let mut probe = p.clone();
        walk(&mut probe, &mut |t: &mut T| {
            if i == k {
                options = alts(t);
            }
            i += 1;
        });
        for o in options {
            let mut q = p.clone();
            let mut i = 0usize;
            let mut o = Some(o);
            walk(&mut q, &mut |t: &mut T| {
                if i == k {
                    if let Some(x) = o.take() {
                        *t = x;
                    }
                }
                i += 1;
            });
            out.push((format!("{op}@{k}"), q));
        }
    }
}

fn type_replacements() -> Vec<Ty> {
    let u = Ty::U;
    vec![Ty::Bool, u(1), u(8), u(16), Ty::tup(vec![u(8), u(8)]), Ty::tup(vec![u(4), u(4)]), Ty::opt(u(8)), Ty::either(Ty::unit(), u(8)), Ty::unit(), Ty::arr(u(8), 2), Ty::Alias("Undefined".into())]
}

fn ty_alts(t: &Ty) -> Vec<Ty> {
    let mut out: Vec<Ty> = type_replacements().into_iter().filter(|r| r != t).collect();
    // structural edits of the type itself
    match t {
        Ty::Tuple(v) => {
            let mut more = v.clone();
            more.push(Ty::U(8));
            out.push(Ty::Tuple(more));
            if !v.is_empty() {
                out.push(Ty::Tuple(v[..v.len() - 1].to_vec()));
                let mut sw = v.clone();
                sw.reverse();
                if sw != *v {
                    out.push(Ty::Tuple(sw));
                }
            }
        }
        Ty::Array(e, n) => {
            out.push(Ty::Array(e.clone(), n + 1));
            if *n > 0 {
                out.push(Ty::Array(e.clone(), n - 1));
            }
            out.push(Ty::List(e.clone(), (*n).max(2).next_power_of_two()));
        }
        Ty::List(e, n) => {
            out.push(Ty::List(e.clone(), n * 2));
            if *n > 2 {
                out.push(Ty::List(e.clone(), n / 2));
            }
            out.push(Ty::List(e.clone(), n + 1));
            out.push(Ty::List(e.clone(), 1));
            out.push(Ty::Array(e.clone(), *n));
        }
        Ty::Option(e) => {
            out.push((**e).clone());
            out.push(Ty::either(Ty::unit(), (**e).clone()));
        }
        Ty::Either(a, b) => {
            out.push(Ty::either((**b).clone(), (**a).clone()));
            out.push(Ty::opt((**b).clone()));
        }
        Ty::U(n) => {
            if *n < 256 {
                out.push(Ty::U(n * 2));
            }
            if *n > 1 {
                out.push(Ty::U(n / 2));
            }
        }
        _ => {}
    }
    out.retain(|r| r != t);
    out
}

fn pat_alts(p: &Pat) -> Vec<Pat> {
    let mut out = vec![];
    match p {
        Pat::Id(n) => {
            out.push(Pat::Ignore);
            out.push(Pat::Tuple(vec![Pat::Id(n.clone()), Pat::Ignore]));
            out.push(Pat::Array(vec![Pat::Id(n.clone())]));
            out.push(Pat::Id(format!("{n}_renamed")));
        }
        Pat::Ignore => out.push(Pat::Tuple(vec![Pat::Ignore, Pat::Ignore])),
        Pat::Tuple(v) | Pat::Array(v) => {
            let is_arr = matches!(p, Pat::Array(_));
            let mk = |v: Vec<Pat>| if is_arr { Pat::Array(v) } else { Pat::Tuple(v) };
            let mut more = v.clone();
            more.push(Pat::Ignore);
            out.push(mk(more));
            if !v.is_empty() {
                out.push(mk(v[..v.len() - 1].to_vec()));
                out.push(mk(v[1..].to_vec()));
            }
            // tuple <-> array
            out.push(if is_arr { Pat::Tuple(v.clone()) } else { Pat::Array(v.clone()) });
            // repeat a name
            let mut names = vec![];
            p.names(&mut names);
            if names.len() >= 2 {
                let mut q = v.clone();
                fn rename_first(ps: &mut [Pat], from: &str, to: &str) -> bool {
                    for p in ps {
                        match p {
                            Pat::Id(n) if n == from => {
                                *n = to.to_string();
                                return true;
                            }
                            Pat::Tuple(v) | Pat::Array(v) => {
                                if rename_first(v, from, to) {
                                    return true;
                                }
                            }
                            _ => {}
                        }
                    }
                    false
                }
                rename_first(&mut q, &names[1], &names[0]);
                out.push(mk(q));
            }
            if v.len() >= 2 {
                let mut sw = v.clone();
                sw.swap(0, 1);
                if sw != *v {
                    out.push(mk(sw));
                }
            }
        }
    }
    out
}

fn names_in(p: &Program) -> (Vec<String>, Vec<String>, Vec<String>) {
    // (variable names, function names, witness names)
    let mut vars = vec![];
    let mut fns = vec![];
    let mut wits = vec![];
    let mut q = p.clone();
    for it in &p.items {
        if let Item::Fn(f) = it {
            fns.push(f.name.clone());
            for (n, _) in &f.params {
                vars.push(n.clone());
            }
        }
    }
    walk_pats_mut(&mut q, &mut |pt: &mut Pat| {
        if let Pat::Id(n) = pt {
            vars.push(n.clone());
        }
    });
    walk_exprs_mut(&mut q, &mut |e: &mut Expr| match e {
        Expr::Witness(n) => wits.push(n.clone()),
        Expr::Match(_, a, b) => {
            for arm in [a, b] {
                if let MPat::Some(n, _) | MPat::Left(n, _) | MPat::Right(n, _) = &arm.pat {
                    vars.push(n.clone());
                }
            }
        }
        _ => {}
    });
    for v in [&mut vars, &mut fns, &mut wits] {
        v.sort();
        v.dedup();
    }
    (vars, fns, wits)
}

fn expr_alts(e: &Expr, vars: &[String], fns: &[String], wits: &[String]) -> Vec<Expr> {
    let mut out = vec![];
    match e {
        Expr::Lit(Lit::Dec(s)) => {
            out.push(Expr::Lit(Lit::Dec(format!("{s}0"))));
            out.push(Expr::Lit(Lit::Dec(format!("{s}00000"))));
            for v in ["2", "16", "256", "65536", "255"] {
                if v != s {
                    out.push(Expr::Lit(Lit::Dec(v.to_string())));
                }
            }
            out.push(boolean(true));
            out.push(Expr::Lit(Lit::Hex("ff".into())));
        }
        Expr::Lit(Lit::Bin(s)) => {
            out.push(Expr::Lit(Lit::Bin(format!("{s}0"))));
            if s.len() > 1 {
                out.push(Expr::Lit(Lit::Bin(s[1..].to_string())));
            }
            out.push(Expr::Lit(Lit::Hex(s.clone())));
        }
        Expr::Lit(Lit::Hex(s)) => {
            out.push(Expr::Lit(Lit::Hex(format!("{s}0"))));
            out.push(Expr::Lit(Lit::Hex(format!("{s}00"))));
            if s.len() > 2 {
                out.push(Expr::Lit(Lit::Hex(s[2..].to_string())));
            }
        }
        Expr::Lit(Lit::Bool(b)) => {
            out.push(dec(*b as u128));
            out.push(boolean(!*b));
        }
        Expr::Var(n) => {
            for v in vars {
                if v != n {
                    out.push(var(v));
                }
            }
            out.push(var("undefined_name"));
            out.push(Expr::Witness("FRESH".into()));
            out.push(Expr::Param("FRESHP".into()));
            if let Some(w) = wits.first() {
                out.push(Expr::Witness(w.clone()));
            }
            out.push(Expr::Tuple(vec![var(n)]));
        }
        Expr::Witness(n) => {
            for w in wits {
                if w != n {
                    out.push(Expr::Witness(w.clone()));
                }
            }
            out.push(Expr::Param(n.clone()));
        }
        Expr::Param(n) => {
            out.push(Expr::Witness(n.clone()));
        }
        Expr::Paren(x) => {
            out.push((**x).clone());
            out.push(Expr::Tuple(vec![(**x).clone()]));
        }
        Expr::Tuple(v) | Expr::Array(v) | Expr::List(v) => {
            let mk = |v: Vec<Expr>| match e {
                Expr::Tuple(_) => Expr::Tuple(v),
                Expr::Array(_) => Expr::Array(v),
                _ => Expr::List(v),
            };
            if let Some(first) = v.first() {
                let mut more = v.clone();
                more.push(first.clone());
                out.push(mk(more.clone()));
                if matches!(e, Expr::List(_)) {
                    // push past typical bounds
                    let mut m2 = more.clone();
                    while m2.len() < 4 {
                        m2.push(first.clone());
                    }
                    out.push(mk(m2));
                }
                out.push(mk(v[..v.len() - 1].to_vec()));
            } else {
                out.push(mk(vec![dec(0)]));
            }
            if v.len() >= 2 {
                let mut sw = v.clone();
                sw.swap(0, 1);
                if sw != *v {
                    out.push(mk(sw));
                }
            }
            // change the constructor
            out.push(match e {
                Expr::Tuple(_) => Expr::Array(v.clone()),
                Expr::Array(_) => Expr::List(v.clone()),
                _ => Expr::Array(v.clone()),
            });
        }
        Expr::Left(x) => {
            out.push(Expr::Right(x.clone()));
            out.push(Expr::Some(x.clone()));
            out.push((**x).clone());
        }
        Expr::Right(x) => {
            out.push(Expr::Left(x.clone()));
            out.push(Expr::Some(x.clone()));
            out.push((**x).clone());
        }
        Expr::None => {
            out.push(Expr::Left(Box::new(Expr::Tuple(vec![]))));
            out.push(boolean(false));
        }
        Expr::Some(x) => {
            out.push(Expr::None);
            out.push(Expr::Right(x.clone()));
            out.push((**x).clone());
        }
        Expr::Block(stmts, last) => {
            // final expression dropped / turned into a statement
            if let Some(l) = last {
                let mut s = stmts.clone();
                s.push(Stmt::Expr((**l).clone()));
                out.push(Expr::Block(s, None));
                out.push(Expr::Block(stmts.clone(), None));
            } else if let Some(Stmt::Expr(x)) = stmts.last() {
                out.push(Expr::Block(stmts[..stmts.len() - 1].to_vec(), Some(Box::new(x.clone()))));
            }
        }
        Expr::Match(s, a, b) => {
            // patterns swapped but not bodies; one arm duplicated; binder type changed
            out.push(Expr::Match(s.clone(), Box::new(Arm { pat: b.pat.clone(), body: a.body.clone() }), Box::new(Arm { pat: a.pat.clone(), body: b.body.clone() })));
            out.push(Expr::Match(s.clone(), a.clone(), Box::new(Arm { pat: a.pat.clone(), body: b.body.clone() })));
            let other = |p: &MPat| match p {
                MPat::False => MPat::None,
                MPat::True => MPat::Some("t_".into(), Ty::U(8)),
                MPat::None => MPat::False,
                MPat::Some(n, t) => MPat::Right(n.clone(), t.clone()),
                MPat::Left(n, t) => MPat::Some(n.clone(), t.clone()),
                MPat::Right(n, t) => MPat::Some(n.clone(), t.clone()),
            };
            out.push(Expr::Match(s.clone(), Box::new(Arm { pat: other(&a.pat), body: a.body.clone() }), b.clone()));
            out.push(Expr::Match(s.clone(), a.clone(), Box::new(Arm { pat: other(&b.pat), body: b.body.clone() })));
            // the scrutinee replaced by an arm body (type confusion)
            out.push(Expr::Match(Box::new(a.body.clone()), a.clone(), b.clone()));
        }
        Expr::Call(name, args) => {
            if args.len() >= 2 {
                for i in 0..args.len() - 1 {
                    let mut sw = args.clone();
                    sw.swap(i, i + 1);
                    if sw != *args {
                        out.push(Expr::Call(name.clone(), sw));
                    }
                }
            }
            if let Some(last) = args.last() {
                out.push(Expr::Call(name.clone(), args[..args.len() - 1].to_vec()));
                let mut more = args.clone();
                more.push(last.clone());
                out.push(Expr::Call(name.clone(), more));
            } else {
                out.push(Expr::Call(name.clone(), vec![dec(0)]));
            }
            // change the callee
            let mut callees: Vec<CallName> = vec![];
            match name {
                CallName::Jet(j) => {
                    for other in ["eq_8", "eq_16", "lt_8", "add_8", "verify", "check_sig_verify", "no_such_jet", "complement_8", "xor_8", "some_8"] {
                        if other != j {
                            callees.push(CallName::Jet(other.to_string()));
                        }
                    }
                }
                CallName::Unwrap => {
                    callees.push(CallName::UnwrapLeft(Ty::U(8)));
                    callees.push(CallName::UnwrapRight(Ty::unit()));
                    callees.push(CallName::Dbg);
                }
                CallName::UnwrapLeft(t) => {
                    callees.push(CallName::UnwrapRight(t.clone()));
                    callees.push(CallName::Unwrap);
                }
                CallName::UnwrapRight(t) => {
                    callees.push(CallName::UnwrapLeft(t.clone()));
                    callees.push(CallName::Unwrap);
                }
                CallName::IsNone(_) => callees.push(CallName::Unwrap),
                CallName::Assert => {
                    callees.push(CallName::Dbg);
                    callees.push(CallName::Unwrap);
                }
                CallName::Panic => callees.push(CallName::Assert),
                CallName::Dbg => callees.push(CallName::Assert),
                CallName::Cast(_) => callees.push(CallName::Dbg),
                CallName::Fn(f) => {
                    for g in fns {
                        if g != f {
                            callees.push(CallName::Fn(g.clone()));
                        }
                    }
                    callees.push(CallName::Fn("undefined_fn".into()));
                }
                CallName::Fold(f, n) => {
                    callees.push(CallName::Fold(f.clone(), n * 2));
                    if *n > 2 {
                        callees.push(CallName::Fold(f.clone(), n / 2));
                    }
                    callees.push(CallName::Fold(f.clone(), n + 1));
                    for g in fns {
                        if g != f {
                            callees.push(CallName::Fold(g.clone(), *n));
                        }
                    }
                    callees.push(CallName::ForWhile(f.clone()));
                }
                CallName::ForWhile(f) => {
                    for g in fns {
                        if g != f {
                            callees.push(CallName::ForWhile(g.clone()));
                        }
                    }
                    callees.push(CallName::Fold(f.clone(), 4));
                    callees.push(CallName::Fn(f.clone()));
                }
            }
            for c in callees {
                out.push(Expr::Call(c, args.clone()));
            }
        }
    }
    out
}

/// All single-edit near misses of `p` (operator@site, mutated program).
/// `near_misses`, thinned for the wide / deep bases in the quick tier (every 16th mutant in enumeration order;
/// the thorough tier takes all of them).
pub fn near_misses_for(name: &str, p: &Program, quick: bool) -> Vec<(String, Program)> {
    let all = near_misses(p);
    if quick && crate::families::is_large(name) {
        all.into_iter().enumerate().filter(|(i, _)| i % 16 == 0).map(|(_, m)| m).collect()
    } else {
        all
    }
}

pub fn near_misses(p: &Program) -> Vec<(String, Program)> {
    let mut out = vec![];
    let (vars, fns, wits) = names_in(p);
    apply_at::<Ty>(p, &|q, f| walk_tys_mut(q, f), &ty_alts, "type", &mut out);
    apply_at::<Pat>(p, &|q, f| walk_pats_mut(q, f), &pat_alts, "pattern", &mut out);
    apply_at::<Expr>(p, &|q, f| walk_exprs_mut(q, f), &|e| expr_alts(e, &vars, &fns, &wits), "expr", &mut out);
    // statement-list edits
    {
        let mut n = 0;
        let mut probe = p.clone();
        walk_blocks_mut(&mut probe, &mut |_, _| n += 1);
        for k in 0..n {
            let mut len = 0;
            let mut i = 0;
            let mut probe = p.clone();
            walk_blocks_mut(&mut probe, &mut |s, _| {
                if i == k {
                    len = s.len();
                }
                i += 1;
            });
            let mut edits: Vec<(String, Box<dyn Fn(&mut Vec<Stmt>)>)> = vec![];
            for j in 0..len {
                edits.push((format!("stmt-delete@{k}.{j}"), Box::new(move |s: &mut Vec<Stmt>| {
                    s.remove(j);
                })));
                edits.push((format!("stmt-duplicate@{k}.{j}"), Box::new(move |s: &mut Vec<Stmt>| {
                    let c = s[j].clone();
                    s.insert(j, c);
                })));
                if j + 1 < len {
                    edits.push((format!("stmt-swap@{k}.{j}"), Box::new(move |s: &mut Vec<Stmt>| s.swap(j, j + 1))));
                }
                if j > 0 {
                    edits.push((format!("stmt-to-front@{k}.{j}"), Box::new(move |s: &mut Vec<Stmt>| {
                        let c = s.remove(j);
                        s.insert(0, c);
                    })));
                }
            }
            for (name, edit) in edits {
                let mut q = p.clone();
                let mut i = 0;
                walk_blocks_mut(&mut q, &mut |s, _| {
                    if i == k {
                        edit(s);
                    }
                    i += 1;
                });
                out.push((name, q));
            }
        }
    }
    // item-level edits
    let n = p.items.len();
    for i in 0..n {
        let mut q = p.clone();
        q.items.remove(i);
        out.push((format!("item-delete@{i}"), q));
        if i + 1 < n {
            let mut q = p.clone();
            q.items.swap(i, i + 1);
            out.push((format!("item-swap@{i}"), q));
        }
        let mut q = p.clone();
        let it = q.items.remove(i);
        q.items.push(it);
        if q != *p {
            out.push((format!("item-to-end@{i}"), q));
        }
        if let Item::Alias(n, t) = &p.items[i] {
            let mut q = p.clone();
            q.items.insert(i + 1, Item::Alias(n.clone(), t.clone()));
            out.push((format!("alias-duplicated@{i}"), q));
            let mut q = p.clone();
            q.items.insert(i + 1, Item::Alias(n.clone(), Ty::tup(vec![t.clone(), Ty::Bool])));
            out.push((format!("alias-redefined@{i}"), q));
        }
        if let Item::Fn(f) = &p.items[i] {
            // function-level edits
            let mut variants: Vec<(String, FnDef)> = vec![];
            let mut g = f.clone();
            g.params.push(("extra_".into(), Ty::U(8)));
            variants.push(("fn-add-param".into(), g));
            if !f.params.is_empty() {
                // every parameter dropped in turn (a step function that loses one parameter may still be a valid
                // function, which is exactly when the fold / for_while signature checks are on their own)
                for k in 0..f.params.len() {
                    let mut g = f.clone();
                    g.params.remove(k);
                    variants.push(("fn-drop-param".into(), g));
                }
                if f.params.len() >= 2 {
                    let mut g = f.clone();
                    g.params.swap(0, 1);
                    variants.push(("fn-swap-params".into(), g));
                }
            }
            let mut g = f.clone();
            g.ret = match &f.ret {
                None => Some(Ty::U(8)),
                Some(_) => None,
            };
            variants.push(("fn-toggle-ret".into(), g));
            if f.ret.is_none() {
                let mut g = f.clone();
                g.ret = Some(Ty::unit());
                variants.push(("fn-unit-ret".into(), g));
            }
            if f.name == "main" {
                let mut g = f.clone();
                g.name = "main2".into();
                variants.push(("main-renamed".into(), g));
                // duplicate main
                let mut q = p.clone();
                q.items.push(Item::Fn(f.clone()));
                out.push(("main-duplicated".into(), q));
                // witness moved into a function
                let mut q = p.clone();
                q.items.insert(0, Item::Fn(FnDef { name: "uses_witness".into(), params: vec![], ret: Some(Ty::U(8)), body: (vec![], Some(Box::new(Expr::Witness("INFN".into())))) }));
                out.push(("witness-in-function".into(), q));
                // ... and in a function defined after main
                let mut q = p.clone();
                q.items.push(Item::Fn(FnDef { name: "uses_witness_late".into(), params: vec![], ret: Some(Ty::U(8)), body: (vec![], Some(Box::new(block(vec![let_(Pat::id("w"), Ty::U(8), Expr::Witness("LATE".into()))], Some(var("w")))))) }));
                out.push(("witness-in-function-after-main".into(), q));
            } else {
                let mut g = f.clone();
                g.name = "main".into();
                variants.push(("fn-renamed-main".into(), g));
            }
            if f.params.len() >= 2 {
                // the book does not say whether a parameter name may repeat (R1: unspecified); C03 still
                // demands that whatever is accepted compiles
                // every pair of positions, both directions (adjacent and non-adjacent repeats)
                for a in 0..f.params.len() {
                    for b in 0..f.params.len() {
                        if a != b && f.params[a].0 != f.params[b].0 {
                            let mut g = f.clone();
                            g.params[a].0 = g.params[b].0.clone();
                            variants.push(("fn-dup-param-name".into(), g));
                        }
                    }
                }
            }
            if f.name != "main" {
                let mut q = p.clone();
                q.items.insert(i + 1, Item::Fn(f.clone()));
                out.push((format!("fn-duplicated@{i}"), q));
            }
            for (name, g) in variants {
                let mut q = p.clone();
                q.items[i] = Item::Fn(g);
                out.push((format!("{name}@{i}"), q));
            }
        }
    }
    out
}
