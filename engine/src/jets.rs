//! R5: closed-form jet model.  Operand *grouping* (how operands become call arguments) comes from a frozen
//! snapshot of the pinned release's signature table (data/jet_sigs.txt); operand *order*, result shape and
//! value functions below are written from the Simplicity jet semantics on the flattened operand list.

use crate::big::Big;
use crate::lang::{parse_ty, Ty, Val};
use crate::refmodel::{resolve, AliasMap};
use std::collections::HashMap;
use std::sync::OnceLock;

const SNAPSHOT: &str = include_str!("../data/jet_sigs.txt");

pub struct JetSig {
    pub params: Vec<Ty>,
    pub ret: Ty,
    /// the documented spelling (builtin aliases unresolved)
    pub params_doc: Vec<Ty>,
    pub ret_doc: Ty,
}

fn table() -> &'static HashMap<String, JetSig> {
    static T: OnceLock<HashMap<String, JetSig>> = OnceLock::new();
    T.get_or_init(|| {
        let mut m = HashMap::new();
        let no_alias = AliasMap::new();
        for line in SNAPSHOT.lines() {
            if line.trim().is_empty() || line.starts_with('#') {
                continue;
            }
            let parts: Vec<&str> = line.split('|').collect();
            assert!(parts.len() == 3 || parts.len() == 5, "bad snapshot line {line}");
            let params: Vec<Ty> = if parts[1].is_empty() {
                vec![]
            } else {
                parts[1].split('&').map(|t| resolve(&parse_ty(t).expect("snapshot type"), &no_alias).expect("resolve")).collect()
            };
            let ret = resolve(&parse_ty(parts[2]).expect("snapshot type"), &no_alias).expect("resolve");
            let (params_doc, ret_doc) = if parts.len() == 5 {
                let pd: Vec<Ty> = if parts[3].is_empty() { vec![] } else { parts[3].split('&').map(|t| parse_ty(t).expect("snapshot type")).collect() };
                (pd, parse_ty(parts[4]).expect("snapshot type"))
            } else {
                (params.clone(), ret.clone())
            };
            m.insert(parts[0].to_string(), JetSig { params, ret, params_doc, ret_doc });
        }
        m
    })
}

pub fn all_names() -> Vec<String> {
    let mut v: Vec<String> = table().keys().cloned().collect();
    v.sort();
    v
}

/// The signature as documented (with builtin alias names).
pub fn signature_doc(name: &str) -> Option<(Vec<Ty>, Ty)> {
    table().get(name).map(|s| (s.params_doc.clone(), s.ret_doc.clone()))
}

pub fn signature(name: &str) -> Option<(Vec<Ty>, Ty)> {
    table().get(name).map(|s| (s.params.clone(), s.ret.clone()))
}

#[derive(Clone, Debug, PartialEq)]
enum Leaf {
    B(bool),
    U(u16, Big),
}

fn flatten(v: &Val, out: &mut Vec<Leaf>) -> Option<()> {
    match v {
        Val::Bool(b) => out.push(Leaf::B(*b)),
        Val::U(w, b) => out.push(Leaf::U(*w, b.clone())),
        Val::Tuple(vs) => {
            for x in vs {
                flatten(x, out)?;
            }
        }
        _ => return None,
    }
    Some(())
}

fn build(ty: &Ty, leaves: &mut std::vec::IntoIter<Leaf>) -> Option<Val> {
    Some(match ty {
        Ty::Bool => match leaves.next()? {
            Leaf::B(b) => Val::Bool(b),
            Leaf::U(1, v) => Val::Bool(!v.is_zero()),
            _ => return None,
        },
        Ty::U(w) => match leaves.next()? {
            Leaf::U(w2, v) if w2 == *w => Val::U(*w, v),
            Leaf::B(b) if *w == 1 => Val::u(1, b as u128),
            _ => return None,
        },
        Ty::Tuple(ts) => Val::Tuple(ts.iter().map(|t| build(t, leaves)).collect::<Option<_>>()?),
        _ => return None,
    })
}

fn mask(n: u32) -> u128 {
    if n >= 128 {
        u128::MAX
    } else {
        (1u128 << n) - 1
    }
}

/// Parse "family_w1_w2" into (family, [w1, w2]).
fn split_name(name: &str) -> (String, Vec<u32>) {
    let parts: Vec<&str> = name.split('_').collect();
    let mut ws = vec![];
    let mut end = parts.len();
    while end > 0 {
        match parts[end - 1].parse::<u32>() {
            Ok(w) => {
                ws.insert(0, w);
                end -= 1;
            }
            Err(_) => break,
        }
    }
    (parts[..end].join("_"), ws)
}

/// Does the model define this jet?
pub fn has_model(name: &str) -> bool {
    let Some((ptys, _)) = signature(name) else { return false };
    let args: Vec<Val> = ptys.iter().map(crate::refmodel::zero_val).collect();
    apply(name, &args).is_some()
}

/// Apply the closed-form meaning. None = no model; Some(Err) = the jet fails (none of the modelled ones do).
pub fn apply(name: &str, args: &[Val]) -> Option<Result<Val, ()>> {
    let (_, ret) = signature(name)?;
    let mut leaves = vec![];
    for a in args {
        flatten(a, &mut leaves)?;
    }
    let (fam, ws) = split_name(name);
    // eq_256 needs big values
    if fam == "eq" && ws.len() == 1 {
        if leaves.len() != 2 {
            return None;
        }
        let r = match (&leaves[0], &leaves[1]) {
            (Leaf::U(_, a), Leaf::U(_, b)) => a == b,
            (Leaf::B(a), Leaf::B(b)) => a == b,
            _ => return None,
        };
        return Some(Ok(Val::Bool(r)));
    }
    // everything else fits in u128
    let mut xs: Vec<u128> = vec![];
    for l in &leaves {
        xs.push(match l {
            Leaf::B(b) => *b as u128,
            Leaf::U(_, v) => v.to_u128()?,
        });
    }
    let n = *ws.first()?;
    let m = mask(n);
    let u = |w: u32, v: u128| Leaf::U(w as u16, Big::from_u128(v & mask(w)));
    let b = |v: bool| Leaf::B(v);
    let arity = |k: usize| if xs.len() == k { Some(()) } else { None };
    let out: Vec<Leaf> = match (fam.as_str(), ws.len()) {
        ("low", 1) => {
            arity(0)?;
            vec![u(n, 0)]
        }
        ("high", 1) => {
            arity(0)?;
            vec![u(n, m)]
        }
        ("one", 1) => {
            arity(0)?;
            vec![u(n, 1)]
        }
        ("complement", 1) => {
            arity(1)?;
            vec![u(n, !xs[0])]
        }
        ("and", 1) => {
            arity(2)?;
            vec![u(n, xs[0] & xs[1])]
        }
        ("or", 1) => {
            arity(2)?;
            vec![u(n, xs[0] | xs[1])]
        }
        ("xor", 1) => {
            arity(2)?;
            vec![u(n, xs[0] ^ xs[1])]
        }
        ("maj", 1) => {
            arity(3)?;
            vec![u(n, (xs[0] & xs[1]) | (xs[0] & xs[2]) | (xs[1] & xs[2]))]
        }
        ("xor_xor", 1) => {
            arity(3)?;
            vec![u(n, xs[0] ^ xs[1] ^ xs[2])]
        }
        ("ch", 1) => {
            arity(3)?;
            vec![u(n, (xs[0] & xs[1]) | (!xs[0] & xs[2]))]
        }
        ("some", 1) => {
            arity(1)?;
            vec![b(xs[0] != 0)]
        }
        ("all", 1) => {
            arity(1)?;
            vec![b(xs[0] == m)]
        }
        ("is_zero", 1) => {
            arity(1)?;
            vec![b(xs[0] == 0)]
        }
        ("is_one", 1) => {
            arity(1)?;
            vec![b(xs[0] == 1)]
        }
        ("le", 1) => {
            arity(2)?;
            vec![b(xs[0] <= xs[1])]
        }
        ("lt", 1) => {
            arity(2)?;
            vec![b(xs[0] < xs[1])]
        }
        ("min", 1) => {
            arity(2)?;
            vec![u(n, xs[0].min(xs[1]))]
        }
        ("max", 1) => {
            arity(2)?;
            vec![u(n, xs[0].max(xs[1]))]
        }
        ("median", 1) => {
            arity(3)?;
            let mut s = [xs[0], xs[1], xs[2]];
            s.sort();
            vec![u(n, s[1])]
        }
        ("add", 1) => {
            arity(2)?;
            let s = xs[0] + xs[1];
            vec![b(s > m), u(n, s)]
        }
        ("full_add", 1) => {
            arity(3)?;
            let s = xs[0] + xs[1] + xs[2];
            vec![b(s > m), u(n, s)]
        }
        ("increment", 1) => {
            arity(1)?;
            let s = xs[0] + 1;
            vec![b(s > m), u(n, s)]
        }
        ("full_increment", 1) => {
            arity(2)?;
            let s = xs[0] + xs[1];
            vec![b(s > m), u(n, s)]
        }
        ("subtract", 1) => {
            arity(2)?;
            vec![b(xs[0] < xs[1]), u(n, xs[0].wrapping_sub(xs[1]))]
        }
        ("full_subtract", 1) => {
            arity(3)?;
            let (bi, a, c) = (xs[0], xs[1], xs[2]);
            vec![b(a < c + bi), u(n, a.wrapping_sub(c).wrapping_sub(bi))]
        }
        ("decrement", 1) => {
            arity(1)?;
            vec![b(xs[0] == 0), u(n, xs[0].wrapping_sub(1))]
        }
        ("full_decrement", 1) => {
            arity(2)?;
            let (bi, a) = (xs[0], xs[1]);
            vec![b(a < bi), u(n, a.wrapping_sub(bi))]
        }
        ("negate", 1) => {
            arity(1)?;
            vec![b(xs[0] != 0), u(n, 0u128.wrapping_sub(xs[0]))]
        }
        ("multiply", 1) => {
            arity(2)?;
            vec![u(2 * n, xs[0] * xs[1])]
        }
        ("full_multiply", 1) => {
            arity(4)?;
            vec![u(2 * n, xs[0] * xs[1] + xs[2] + xs[3])]
        }
        ("div_mod", 1) => {
            arity(2)?;
            if xs[1] == 0 {
                vec![u(n, 0), u(n, xs[0])]
            } else {
                vec![u(n, xs[0] / xs[1]), u(n, xs[0] % xs[1])]
            }
        }
        ("divide", 1) => {
            arity(2)?;
            vec![u(n, if xs[1] == 0 { 0 } else { xs[0] / xs[1] })]
        }
        ("modulo", 1) => {
            arity(2)?;
            vec![u(n, if xs[1] == 0 { xs[0] } else { xs[0] % xs[1] })]
        }
        ("divides", 1) => {
            arity(2)?;
            vec![b(if xs[0] == 0 { xs[1] == 0 } else { xs[1] % xs[0] == 0 })]
        }
        // two-width families: first number = source width for pads/extends, N_M for most/shift
        ("leftmost", 2) => {
            arity(1)?;
            let k = ws[1];
            vec![u(k, xs[0] >> (n - k))]
        }
        ("rightmost", 2) => {
            arity(1)?;
            let k = ws[1];
            vec![u(k, xs[0])]
        }
        ("left_pad_low", 2) => {
            arity(1)?;
            vec![u(ws[1], xs[0])]
        }
        ("left_pad_high", 2) => {
            arity(1)?;
            let t = ws[1];
            vec![u(t, xs[0] | (mask(t) & !m))]
        }
        ("left_extend", 2) => {
            arity(1)?;
            let t = ws[1];
            let msb = (xs[0] >> (n - 1)) & 1 == 1;
            vec![u(t, if msb { xs[0] | (mask(t) & !m) } else { xs[0] })]
        }
        ("right_pad_low", 2) => {
            arity(1)?;
            let t = ws[1];
            vec![u(t, xs[0] << (t - n))]
        }
        ("right_pad_high", 2) => {
            arity(1)?;
            let t = ws[1];
            vec![u(t, (xs[0] << (t - n)) | mask(t - n))]
        }
        ("right_extend", 2) => {
            arity(1)?;
            let t = ws[1];
            let lsb = xs[0] & 1 == 1;
            vec![u(t, (xs[0] << (t - n)) | if lsb { mask(t - n) } else { 0 })]
        }
        ("full_left_shift", 2) => {
            // (a: uN, b: uM) -> (uM, uN): the N+M bit string a||b, split into its top M and low N bits
            arity(2)?;
            let k = ws[1];
            let cat = (xs[0] << k) | xs[1];
            vec![u(k, cat >> n), u(n, cat)]
        }
        ("full_right_shift", 2) => {
            // (a: uM, b: uN) -> (uN, uM): the M+N bit string a||b, split into its top N and low M bits
            arity(2)?;
            let k = ws[1];
            let cat = (xs[0] << n) | xs[1];
            vec![u(n, cat >> k), u(k, cat)]
        }
        ("left_shift_with", 1) => {
            arity(3)?;
            let (bit, s, v) = (xs[0], xs[1], xs[2]);
            let fill = if bit == 1 { m } else { 0 };
            vec![u(n, if s >= n as u128 { fill } else { ((v << s) & m) | (fill & mask(s as u32)) })]
        }
        ("right_shift_with", 1) => {
            arity(3)?;
            let (bit, s, v) = (xs[0], xs[1], xs[2]);
            let fill = if bit == 1 { m } else { 0 };
            vec![u(n, if s >= n as u128 { fill } else { (v >> s) | (fill & !mask(n - s as u32) & m) })]
        }
        ("left_shift", 1) => {
            arity(2)?;
            let (s, v) = (xs[0], xs[1]);
            vec![u(n, if s >= n as u128 { 0 } else { (v << s) & m })]
        }
        ("right_shift", 1) => {
            arity(2)?;
            let (s, v) = (xs[0], xs[1]);
            vec![u(n, if s >= n as u128 { 0 } else { v >> s })]
        }
        ("left_rotate", 1) => {
            arity(2)?;
            let (s, v) = ((xs[0] % n as u128) as u32, xs[1]);
            vec![u(n, if s == 0 { v } else { ((v << s) | (v >> (n - s))) & m })]
        }
        ("right_rotate", 1) => {
            arity(2)?;
            let (s, v) = ((xs[0] % n as u128) as u32, xs[1]);
            vec![u(n, if s == 0 { v } else { ((v >> s) | (v << (n - s))) & m })]
        }
        _ => return None,
    };
    let mut it = out.into_iter();
    let v = build(&ret, &mut it)?;
    if it.next().is_some() {
        return None;
    }
    Some(Ok(v))
}
