/* LD_PRELOAD shim: getrandom() answers from VERIF_HASH_SEED (a splitmix64 stream), so that the seeds of
 * Rust's std RandomState (HashMap iteration order) are chosen by the harness.  Used by check C19 only. */
#define _GNU_SOURCE
#include <stddef.h>
#include <stdint.h>
#include <stdlib.h>
#include <sys/types.h>

static uint64_t state;
static int init;

static uint64_t next(void) {
    uint64_t z = (state += 0x9e3779b97f4a7c15ULL);
    z = (z ^ (z >> 30)) * 0xbf58476d1ce4e5b9ULL;
    z = (z ^ (z >> 27)) * 0x94d049bb133111ebULL;
    return z ^ (z >> 31);
}

ssize_t getrandom(void *buf, size_t buflen, unsigned int flags) {
    (void)flags;
    if (!init) {
        const char *s = getenv("VERIF_HASH_SEED");
        state = s ? strtoull(s, NULL, 10) * 0x2545f4914f6cdd1dULL + 1 : 1;
        init = 1;
    }
    unsigned char *p = buf;
    for (size_t i = 0; i < buflen; i++) {
        if (i % 8 == 0) {
            uint64_t v = next();
            for (size_t j = 0; j < 8 && i + j < buflen; j++) p[i + j] = (unsigned char)(v >> (8 * j));
        }
    }
    return (ssize_t)buflen;
}
