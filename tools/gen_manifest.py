#!/usr/bin/env python3
"""Regenerates /verif/MANIFEST.json from the table below (kept in one place so it is always valid)."""
import json, os, subprocess

CHECKS = {
 "C01": dict(
   technique="bounded-exhaustive explicit-state enumeration of a typed term family on the real compiler + Bit Machine, compared with a reference evaluator",
   text="Every well-typed term of family F (all expression forms and type constructors) up to the stated depth is compiled by the real pipeline and executed (satisfy, encode, decode, Bit Machine) on every witness assignment of its (small) witness space or of a complete boundary product; the exact value is pinned through an EXPECT witness and compared with reference evaluator R2 (success with the right value, failure with neighbouring values, failure whenever R2 panics), with debug symbols off and on. Exhaustive below the bound, no sampling.",
   note="Trusted: simplicity-lang 0.4.0 (decoder, type inference, Bit Machine, C jets), rustc, the harness's R2/R3/R5 models. Small-scope: nothing is claimed for terms deeper than the bound or values outside the boundary alphabets.",
   ref="§6-C01"),
 "C07": dict(
   technique="bounded-exhaustive enumeration of types, values and ordered cast pairs on the real code, compared with layout model R3 by Merkle root / value tree",
   text="Every type of the stated universe (all constructors to depth 2, thorough 3; array sizes 0..17 and selected large ones; list bounds 2..512) is converted by the real StructuralType::from and compared with the documented layout (model R3) by type Merkle root; every value of a complete value alphabet per type is converted, compared node by node with R3's value tree and reconstructed; every ordered pair of a cast-type set containing each row of the book's cast table is compiled (accepted iff equal layout) and run on every value with the expected re-read value pinned.",
   note="Trusted: simplicity-lang Final/Value primitives and tmr(); R3 written from book/src/type_casting.md. Large integer domains are covered by a fixed boundary alphabet, enumerated completely.",
   ref="§6-C07"),
 "C11": dict(
   technique="bounded-exhaustive enumeration of (literal text, type) states on the real parser/compiler, compared with literal model R4",
   text="All widths x three notations x the full value alphabet (all values for N<=8, every 2^k-1/2^k/2^k+1, powers of ten, carry patterns, 2^N-1/2^N/2^N+1) x every underscore placement, leading zeros, digit-less and over/under-long forms, plus hex at [u8;n] for n in 0..33,64: acceptance of `let x: T = LIT;`, the parsed value against the Rust constructors, a run-time comparison against a constructor-built witness and print->parse of the value are each compared with R4.",
   note="R4 written from C11's statement; value parser judged on acceptance only through whole programs because Value::parse_from_str parses a prefix of its input.",
   ref="§6-C11"),
 "C15": dict(
   technique="bounded-exhaustive enumeration of values, types and name->value maps through the real printers and parsers (round-trip oracle)",
   text="Every value of a complete per-type alphabet over a type universe built to stress the printer's hex shortcut (byte arrays of every length 0..64, nested / adjacent byte arrays, sub-byte integers, u128/u256, empty and singleton containers, depth <= 3), every type of C07's universe, and every map of the stated finite family (0..6 names from a reserved-word-derived identifier pool) are printed and parsed back (text module and JSON); module printing is compared over all insertion orders and duplicate names must be rejected.",
   note="Values and maps are built with the Rust constructors; equality is the library's own PartialEq on Value / maps.",
   ref="§6-C15"),
 "C03": dict(
   technique="bounded-exhaustive enumeration of source texts (family, all single-edit AST near misses, token-level sources) through the real front end and code generator, intrinsic oracle",
   text="Every text produced by the generators (the whole well-typed family, every single M_ast edit of the C04 base programs including edits the book leaves unspecified, and the token-level sources) that TemplateProgram::new accepts is instantiated with arguments synthesised from parameters(), debug off and on: instantiate must return Ok (never the internal 'Failed to compile to Simplicity', never a panic) and commit() must be 1 -> 1.",
   note="Only accepted texts are judged. Arguments are the all-zero value of each reported parameter type.",
   ref="§6-C03"),
 "C04": dict(
   technique="bounded-exhaustive enumeration of single-edit near misses of well-typed programs on the real front end, compared with an independent type checker (R1)",
   text="Every program of the base set (hand-built static-rules family covering every item kind plus a stride of the generated term family) and every single M_ast edit of it at every site (type, arity, size, bound, literal, name, scope, order, signature, callee, arm, witness edits) is classified by reference checker R1 and given to TemplateProgram::new: accepted iff well-typed. Edits the book leaves open are classified 'unspecified', counted and not judged. Both verdicts must occur per operator.",
   note="R1 is written from book/src/*.md and C04's statement, bidirectional (checking only), nominal type equality after alias resolution, cast admissibility through layout model R3.",
   ref="§6-C04"),
 "C08": dict(
   technique="bounded-exhaustive sweep of (bound, length, list source, fold function) on the real compiler + Bit Machine, compared with reference evaluator R2",
   text="For every bound N (quick 2..256, thorough 2..512), every list length (all lengths for small N, every block edge +-1 above), four list sources (literal, witness, function result, match-selected) and order-sensitive / panicking fold functions (in-order counter that asserts each element, positional hash, tagged and optional elements, assert(e != j) at every block edge j), the compiled program is run with the folded value pinned through an EXPECT witness and compared with R2's left fold; it must fail exactly when R2 panics.",
   note="Trusted: simplicity-lang, R2/R5. The counter fold succeeds only for first-to-last, exactly-once consumption.",
   ref="§6-C08"),
 "C09": dict(
   technique="bounded-exhaustive sweep of (counter width, exit iteration, flags) on the real compiler + Bit Machine, compared with reference evaluator R2",
   text="For every counter width (quick 1,2,4,8; thorough +16), every exit iteration 0..2^W-1 and 'never', with and without a body that panics in any iteration after the exit point, and two accumulator offsets: the loop body asserts in every iteration that the counter equals the low bits of the accumulator and that the context is unchanged; the loop result is pinned through an EXPECT witness and compared with R2 (Left(x) or Right(2^W)).",
   note="Trusted: simplicity-lang, R2/R5. Width 16 (thorough) runs every exit iteration with the plain body and the flag variants at the edges.",
   ref="§6-C09"),
 "C10": dict(
   technique="bounded-exhaustive enumeration of binding structures on the real compiler + Bit Machine, against an environment-stack oracle",
   text="Every statement structure over two names up to the statement budget (lets with id / ignore / pair patterns, nested blocks, let-with-block, match arms with binders, calls of functions whose parameters permute or shadow the names; nesting 3) and every ordered pair of pattern lets (all patterns up to three leaves) in eight structural contexts is elaborated with an environment stack; after every statement the program asserts the constant each visible name holds, and a twin program referencing a name that is not in scope must be rejected.",
   note="The elaborator's environment stack is cross-checked against the generic R2 evaluator on every program. All variables are u8.",
   ref="§6-C10"),
 "C12": dict(
   technique="bounded-exhaustive enumeration of (template, argument map, argument values) on the real instantiate path, against R1's parameter set and a literal-substitution equivalence oracle",
   text="Every template of the stated family (0..4 param:: occurrences over a 15-type pool, in main / called / uncalled functions, same name twice) x every argument map (exact, extra name, each name missing, each name replaced by a same-layout value of another type, each name replaced by another layout) x argument values: parameters() must equal the occurrence set computed by R1, instantiate must fail exactly for the inconsistent maps, and the instantiated program must equal (CMR) or behave like the program with each argument written literally, and must succeed exactly when every witness equals the supplied argument.",
   note="Literal substitution and the value writer are harness-side; equivalence is CMR equality with a behavioural fallback.",
   ref="§6-C12"),
 "C13": dict(
   technique="exhaustive enumeration of all jets and of complete boundary products of operands on the real compiler + Bit Machine, compared with closed-form jet model R5",
   text="All 471 Elements jets: a one-call program with the documented signature must compile (the two reserved jets must be rejected) and every call near miss (argument dropped / added, differently-typed neighbours swapped, result type changed) must be rejected; for the 304 jets with a closed form, the result for every operand tuple of the complete product of boundary alphabets (thorough: all 2^16 pairs for 8-bit binary jets) is pinned through an EXPECT witness and compared with R5.",
   note="Operand grouping is a frozen snapshot of the pinned table (data/jet_sigs.txt), not an independent oracle; operand order, result shape and values are independent. The C jets are trusted.",
   ref="§6-C13"),
 "C14": dict(
   technique="bounded-exhaustive enumeration of call-site programs x layouts and of the term family x witnesses with both debug flags, intrinsic + R2 oracle",
   text="Every tracked call kind (and nested / textually identical combinations, pairs of kinds) in every placement (main, function called 0/1/2 times, nested functions, fold body, for_while body) in every layout (single line, token per line LF/CRLF, tabs, block and non-ASCII line comments, render options): every AssertL marker of the debug build must resolve to the kind and (whitespace-insensitive) text of a reachable call site, distinct markers = reachable call sites, the plain build has none, dbg! values reconstruct to R2's value, and the debug build gives the same verdict as the plain build on every witness - also over the whole depth-1 term family.",
   note="Call-site byte ranges come from the harness renderer. Reachability = main plus transitively called functions.",
   ref="§6-C14"),
 "C02": dict(
   technique="bounded-exhaustive enumeration of witness-flow programs x witness maps through the real satisfy / encoder / decoder / Bit Machine, intrinsic oracle",
   text="Every way a witness can go uninspected (17 flows: `_`, unused variable, partially destructured, passed to / returned by a function, wrapped in Left/Right/Some/tuple/array/list, ignored match-arm payload, dbg!, cast, block result, plus fully / partially inspected controls) x a type set x 1-2 (thorough 3) witnesses x the complete product of per-witness value alphabets, each name missing and the empty map, plus the shipped examples: when satisfy returns a program its CMR must equal commit()'s, every witness value must have its node's type, the encoding must decode to the same CMR and the Bit Machine must return without panicking.",
   note="One known finding (known_findings.json, D1): the unpruned satisfy() encoding is not decodable when a witness is under-constrained. Programs are classified under-constrained by simplicity-lang alone (principal types of the encoded commitment).",
   ref="§6-C02"),
 "C05": dict(
   technique="bounded-exhaustive enumeration of (program, witness map) states through the real satisfy + Bit Machine against the nominal typing rule",
   text="Programs with 0..3 (thorough 4, and 8) witnesses over a 20-type pool containing every same-layout pair of the cast table, each witness compared with a literal (non-zero and zero variants); every map in which each name independently is exact / another value / absent / a same-layout value of another type / another layout / the value of the next name, with 0..2 extra names: satisfy must fail exactly when a supplied declared name has a value of another (nominal) type, and otherwise the run succeeds exactly when every supplied value equals its literal and every absent one has a zero literal.",
   note="Absent witnesses are zero-filled by the library; extra names are ignored.",
   ref="§6-C05"),
 "C18": dict(
   technique="bounded-exhaustive enumeration of (branchy program, witness map, environment) states, differential oracle pruned vs unpruned on the real code",
   text="All 81 pairs of arm kinds (arm-local witnesses, time-lock jets on witnesses and constants, panic, nothing, under-constrained witness, nested match) x 4 selector values x maps (all witnesses, taken arm only, other arm only, none; two values per witness) x 5 environments (lock-time / sequence variants), plus the depth-1 term family: satisfy_with_env(.., Some(env)) must return a program with the committed CMR that decodes and succeeds under env, and must fail exactly when satisfy fails or the unpruned program fails under env.",
   note="The unpruned reference verdict executes satisfy()'s in-memory redeem program under the same environment.",
   ref="§6-C18"),
 "C06": dict(
   technique="bounded-exhaustive enumeration of token-level edits and short strings through every text entry point, in isolated worker processes (fault attribution per input)",
   text="Every single-token edit (delete / duplicate / replace by each / insert each, at every position, over a token alphabet with literal edge forms, huge digit runs and sizes, CR/LF/TAB, non-ASCII, comment markers, lone brackets) of seed programs covering every form (plus each bracket kind nested 12 deep), of witness / param modules and of JSON witness / argument files; thorough: all pairs of edits on the six smallest seeds; all strings up to length 2-4 over character alphabets; an edge-string x type matrix for value parsing and a type-string list. Each input goes through TemplateProgram::new -> instantiate -> commit -> satisfy -> encode, parse+Display, module parsers, serde_json, Value / ResolvedType::parse_from_str; any panic, abort or stack overflow is a violation.",
   note="Workers run under `ulimit -v`; a dead worker is attributed to the input it announced; a 20 s watchdog marks inputs inconclusive. Inputs with bracket depth > 12 are skipped (counted). One known finding (D6: huge array size / list bound aborts on allocation).",
   ref="§6-C06"),
 "C16": dict(
   technique="bounded-exhaustive enumeration of parseable texts (family x layouts, near misses, token mutants) through the real parser and printer, round-trip oracle",
   text="Every family program in every layout (8) and render-option set (3), every single M_ast edit of the C04 base programs, the shipped examples and every single-token edit of the kitchen-sink programs and examples that still parses: parse(print(parse(t))) must equal parse(t), the printed text must be accepted exactly when the original is, and when both are accepted they must compile to the same CMR.",
   note="Parse-tree equality is the library's PartialEq on parse::Program.",
   ref="§6-C16"),
 "C17": dict(
   technique="bounded-exhaustive enumeration of (naming role, identifier, layout) states on the real front end, equivalence oracle against a plain-named baseline",
   text="A baseline program in which every naming role occurs (let variable, nested pattern variable, match binder, function parameter, function name incl. fold target, alias in every type position, witness, parameter) is renamed, one role at a time (thorough: pairs of roles), with every identifier of a pool derived from all reserved words (suffix letter / digit / underscore, prefix, case flip) in every layout; plus alias inlining and one extra pair of parentheses around every sub-expression. Each variant must be accepted and compile to the baseline's CMR.",
   note="Renamings that would capture another name of the baseline (per R1) are skipped.",
   ref="§6-C17"),
 "C19": dict(
   technique="exhaustive comparison over a corpus x flags x in-process repeats x separately started processes under controlled hash seeds x the simc binary",
   text="For every corpus text (all shipped examples, a stride of the term family, the static family, 20 rejected texts) and both debug flags: 12 in-process compilations on 4 threads, one worker process per hash seed of the stated seed set (std's RandomState keys are supplied through an LD_PRELOAD getrandom shim, so HashMap iteration orders are chosen by the harness and their diversity is measured), and simc / simc --debug under two seeds must all yield the byte-identical commit encoding and CMR; simc's stdout must be exactly `Program:\n<base64>\n` with exit 0, and it must exit non-zero with a message exactly when the library returns Err.",
   note="The 2^128 seed space cannot be enumerated; the claim is exhaustiveness over the stated seed set with measured order diversity. simc is built from /repo with default features.",
   ref="§6-C19"),
 "C20": dict(
   technique="bounded-exhaustive enumeration of rejected texts x line structures through the real error renderer, intrinsic oracle (message reader R7)",
   text="Every rejected single-edit near miss of the C04 base programs in eight line structures (LF, CRLF, tabs, token per line, single line, block and non-ASCII line comments), with and without a trailing line terminator and with a leading non-ASCII comment line, and every rejected single-token edit of the kitchen-sink programs and shipped examples in LF and CRLF form: each `N | text` line of the message must quote source line N verbatim, the numbers must be consecutive and inside the file, and the message must end with a non-empty description.",
   note="A line is a run between line feeds with one trailing CR removed. Messages that quote no line (location at end of file) are counted separately as vacuous.",
   ref="§6-C20"),
}

NOT_BUILT_REASON = "check not built yet in this round (planned as bounded-exhaustive exploration, DESIGN.md §6); not claimed until it runs"
ALL = ["C%02d" % i for i in range(1, 21)]


# Dimensions added after the seeded-change rounds (DESIGN.md 12.5 - 12.8c); appended to the level text of each check.
EXTENSIONS = {
 "C09": " Also: a body that re-binds its accumulator and reads it in nested arms; a counter-blind body; two loop functions with equal body text and different parameter lists in one program (roles exchanged, counters of different widths, both orders).",
 "C13": " Also: every modelled jet of arity >= 2 called with variables of which one (every position in turn) was re-bound between its first binding and the call.",
 "C01": " Also: scopes with up to 65 (thorough 257) live bindings, every one read back; calls of functions with up to 33 (65) parameters of mixed widths, every parameter returned; integer constants of every width in all three notations with byte-asymmetric values. Every run of a program is also repeated on a second instance that is satisfied before commit() was ever called, and the first run is repeated after other runs (same bytes). A degenerate-size universe D (empty and one-element arrays, zero-width components, Option<()>, Either<(), ()>, lists of bound 2) at depth 1.",
 "C02": " Also: never-inspected witnesses far larger than any example (list bounds 1024..4096, byte strings of 33 / 65 / 100 bytes); satisfy on an instance on which commit() was never called. Programs with the same polymorphic expression twice in one environment at two types nothing pins down (twins), next to a fully inspected witness.",
 "C03": " Bases include programs with 4..33-parameter functions (P7), 70 live bindings (P8) and one name at three types in nested scopes (P9); repeated parameter names at every pair of positions; every parameter dropped in turn.",
 "C04": " Bases include P7 (wide signatures), P8 (deep environments), P9 (shadow depth) and P6 (every builtin alias against its documented definition).",
 "C05": " Also: a second naming scheme with names of different lengths; 4-/5-tuples, odd-length arrays and lists in the pool; and a family in which a never-inspected witness stands next to an inspected one: on the satisfy_with_env path the verdict must depend on the inspected one alone (the unpruned path shows known finding D1(ii) there). A seventh supply per name: the expected value at a type differing only where the value has nothing (None's payload, the other side of a Left / Right, elements of an empty list).",
 "C06": " Also: every structural (AST) near miss of the small static programs through the program entry point; the engine is built with overflow checks, so an unintended arithmetic wrap is a panic.",
 "C07": " Also (types only): list bounds 1024..65536, arrays up to 4097 elements, tuples up to 100 components.",
 "C08": " Also: list literals whose elements are direct witness expressions (all / every other element). List source param::XS written directly as the fold operand (instantiated form run, literal form evaluated by R2); two fold functions with equal body text and different parameter lists in one program (both orders, with wrong-expectation controls).",
 "C10": " Also: sibling blocks with nothing bound between them (tuple components, call arguments, consecutive statement blocks; S3) and sequences of 40..70 (thorough 130) statements in one scope (S4).",
 "C11": " Also: the library's own 256-bit decimal printer / parser (num::U256) on 812 boundary values. Sequences of two and three valid literals with equal digit strings across notations in one scope (program and witness module).",
 "C12": " Also: tuples of up to 9 components, arrays up to 9, nested n-ary argument types; names of different lengths; one name at two nominal types of equal layout must be rejected. A fifth option per parameter: an argument whose type differs only at a position its value does not inhabit.",
 "C14": " Also: dbg! arguments with more leaves than any integer (arrays of 256 / 257 / 1000 bytes, a list of 600); a same-layout twin program is compiled with debug symbols on the same thread immediately before each program. unwrap_left / unwrap_right at sums with different sides: the symbol carries the argument type and map_value returns the argument.",
 "C15": " Also: values and maps in which one hex text occurs at two types (u256 / [u8; 32], u128 / [u8; 16]). Both printed modules in one file (both orders, same names in both maps), read by both parsers.",
 "C17": " Also: a comment alphabet of 26 bodies (runs of stars before the terminator, terminator look-alikes, openers and // inside, line breaks, code, non-ASCII) at every token boundary at once and glued in at one boundary at a time; an alias name declared twice versus a fresh second name versus both definitions inlined. Names reused across unrelated scopes: every injective choice of parameter / binder names from a pool containing the caller's names.",
 "C18": " Now 14 arm kinds (including destructured witnesses of 33 / 48 / 65 bytes, [u16; 5], a 5-tuple) = 196 pairs; programs that branch on the environment (tx_lock_height / tx_lock_time / tx_lock_distance / tx_is_final) walked through every rotation of the environment list on ONE instance; the reference verdict comes from a second instance without history, and the first satisfy_with_env call is repeated after 5 and 23 other calls (same bytes). 16 arm kinds = 256 pairs (a witness read after / before a complete inner match inside an arm).",
 "C19": " Also: other API calls interleaved between re-compilations; one TemplateProgram object instantiated with argument maps A, B, A and clones of it, each compared with a template without history; the static programs P7 (commit encoding > 4 KiB) through simc. Look-alike neighbours in the corpus: pairs of programs reusing an alias / function / witness / variable name with another meaning, adjacent in compilation order, both orders.",
 "C20": " Ten line structures now (also lone CR), a fourth text variant (lone CR appended); for a message that quotes one line the underlined columns must be columns of that line. Text variants below two empty lines and below an empty CRLF line.",
}

def main():
    checks = []
    for pid in ALL:
        if pid not in CHECKS: continue
        c = CHECKS[pid]
        checks.append({
            "property_id": pid,
            "quick_cmd": f"./check {pid} quick",
            "thorough_cmd": f"./check {pid} thorough",
            "evidence_file": f"/verif/evidence/{pid}.json",
            "replay_cmd_template": "./check replay {path}",
            "engine": "simfony-mc",
            "level_claimed": {"category": "model_checking", "text": c["text"] + EXTENSIONS.get(pid, ""), "design_ref": c["ref"]},
            "level_note": c["note"],
            "technique": c["technique"],
        })
    m = {
        "version": 1,
        "setup_cmd": "./setup.sh",
        "hooks": {
            "guard": "simfony_verif",
            "enable": "RUSTFLAGS=--cfg simfony_verif (reserved; no hook code is needed: every observation point is public API)",
            "baseline_off_cmd": "cd /repo && cargo test --workspace --no-fail-fast --offline",
            "source_commits": [],
            "add_only": True,
        },
        "engines": [{
            "name": "simfony-mc",
            "path": "/verif/engine",
            "serves_properties": [c["property_id"] for c in checks],
            "kind_free_text": "hand-rolled explicit-state / bounded-exhaustive explorer in Rust driving the real simfony library (path dependency on /repo) against reference models R1-R5",
        }],
        "checks": checks,
        "notes": "All checks rebuild simfony from /repo's working tree through cargo (path dependency). Exit 0 = held, 1 = VIOLATION lines, 2 = machinery failure. Known findings: /verif/known_findings.json.",
        "not_applicable": [{"property_id": p, "reason": NOT_BUILT_REASON} for p in ALL if p not in CHECKS],
    }
    with open(os.path.join(os.path.dirname(__file__), "..", "MANIFEST.json"), "w") as f:
        json.dump(m, f, indent=1)
        f.write("\n")

if __name__ == "__main__":
    main()
