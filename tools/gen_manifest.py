#!/usr/bin/env python3
"""Regenerates /verif/MANIFEST.json from the table below (kept in one place so it is always valid)."""
import json, os, subprocess

CHECKS = {
 "C01": dict(
   technique="bounded-exhaustive explicit-state enumeration of a typed term family on the real compiler + Bit Machine, compared with a reference evaluator",
   text="Every well-typed term of family F (all expression forms and type constructors) up to the stated depth is compiled by the real pipeline and executed (satisfy, encode, decode, Bit Machine) on every witness assignment of its (small) witness space or of a complete boundary product; the exact value is pinned through an EXPECT witness and compared with reference evaluator R2 (success with the right value, failure with neighbouring values, failure whenever R2 panics), with debug symbols off and on. Exhaustive below the bound, no sampling.",
   note="Trusted: simplicity-lang 0.4.0 (decoder, type inference, Bit Machine, C jets), rustc, the harness's R2/R3/R5 models. Small-scope: nothing is claimed for terms deeper than the bound or values outside the boundary alphabets.",
   ref="§6-C01"),
}

NOT_BUILT_REASON = "check not built yet in this round (planned as bounded-exhaustive exploration, DESIGN.md §6); not claimed until it runs"
ALL = ["C%02d" % i for i in range(1, 21)]

def main():
    checks = []
    for pid in ALL:
        if pid not in CHECKS: continue
        c = CHECKS[pid]
        checks.append({
            "property_id": pid,
            "quick_cmd": f"./check {pid} quick",
            "thorough_cmd": f"./check {pid} thorough",
            "evidence_file": f"/verif/evidence/{pid}.json",
            "replay_cmd_template": "./check replay {path}",
            "engine": "simfony-mc",
            "level_claimed": {"category": "model_checking", "text": c["text"], "design_ref": c["ref"]},
            "level_note": c["note"],
            "technique": c["technique"],
        })
    m = {
        "version": 1,
        "setup_cmd": "./setup.sh",
        "hooks": {
            "guard": "simfony_verif",
            "enable": "RUSTFLAGS=--cfg simfony_verif (reserved; no hook code is needed: every observation point is public API)",
            "baseline_off_cmd": "cd /repo && cargo test --workspace --no-fail-fast --offline",
            "source_commits": [],
            "add_only": True,
        },
        "engines": [{
            "name": "simfony-mc",
            "path": "/verif/engine",
            "serves_properties": [c["property_id"] for c in checks],
            "kind_free_text": "hand-rolled explicit-state / bounded-exhaustive explorer in Rust driving the real simfony library (path dependency on /repo) against reference models R1-R5",
        }],
        "checks": checks,
        "notes": "All checks rebuild simfony from /repo's working tree through cargo (path dependency). Exit 0 = held, 1 = VIOLATION lines, 2 = machinery failure. Known findings: /verif/known_findings.json.",
        "not_applicable": [{"property_id": p, "reason": NOT_BUILT_REASON} for p in ALL if p not in CHECKS],
    }
    with open(os.path.join(os.path.dirname(__file__), "..", "MANIFEST.json"), "w") as f:
        json.dump(m, f, indent=1)
        f.write("\n")

if __name__ == "__main__":
    main()
