#!/usr/bin/env python3
"""tools/seedstore.py <name> <property> <worktree> <needs> <detected_by> <what>  -> /verif/seeded/<name>/"""
import sys, os, json, shutil, subprocess
name, prop, wt, needs, detected, what = sys.argv[1:7]
d = f"/verif/seeded/{name}"
os.makedirs(d, exist_ok=True)
shutil.copy(f"{wt}/patch.diff", f"{d}/patch.diff")
shutil.copy(f"{wt}/tests/demo.rs", f"{d}/demo.rs")
head = subprocess.check_output(["git", "-C", "/repo", "rev-parse", "--short", "HEAD"]).decode().strip()
meta = {
  "property": prop,
  "what": what,
  "needs_to_manifest": needs,
  "origin": "written by an independent sub-agent that saw only the property text and a scratch worktree of /repo",
  "applies_to_repo_commit": head,
  "confirmed_by_us": {
    "how": "tools/seedconfirm.sh in the scratch worktree: `cargo test --workspace --no-fail-fast --offline` with the change (demo moved aside) -> all targets ok (39 unit + 2 doc tests); `cargo test --offline --test demo` with the change -> FAILED; same after `git apply -R patch.diff` -> ok",
  },
  "checks_run": "tools/seedtest.sh <patch> <checks> (scratch copy of /repo with the patch, quick tier)",
  "detected_by": detected.split(","),
}
json.dump(meta, open(f"{d}/meta.json", "w"), indent=1)
print("stored", d)
