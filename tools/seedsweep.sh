#!/usr/bin/env bash
# tools/seedsweep.sh [name ...] : for every seeded change (or the named ones) apply it to /repo itself, run the
# quick checks listed in its meta.json `detected_by`, record exit codes in meta.json (`sweep`), and undo it.
# /repo must be clean; nothing else may be using /repo while this runs.
set -u
cd /verif
# evidence and replay files of these runs go to a scratch directory, not to /verif/evidence
export VERIF_OUT=/tmp/seedsweep-out; rm -rf $VERIF_OUT; mkdir -p $VERIF_OUT; cp known_findings.json $VERIF_OUT/
[ -z "$(git -C /repo status --porcelain)" ] || { echo "/repo is not clean"; exit 2; }
names=("$@"); [ ${#names[@]} -eq 0 ] && names=($(ls seeded))
for n in "${names[@]}"; do
  d=seeded/$n
  git -C /repo apply "/verif/$d/patch.diff" || { echo "$n: PATCH DOES NOT APPLY"; continue; }
  checks=$(python3 -c "import json,re;print(' '.join(sorted(set(re.findall(r'C\d\d', ' '.join(json.load(open('$d/meta.json'))['detected_by']))))))")
  res=""
  for c in $checks; do
    out=$(./check $c quick 2>/dev/null); code=$?
    nv=$(echo "$out" | grep -c '^VIOLATION')
    res="$res $c:exit=$code:violation_lines=$nv"
  done
  git -C /repo checkout -- .
  echo "$n ->$res"
  python3 - "$d/meta.json" "$res" <<'PY'
import sys,json
p,res=sys.argv[1],sys.argv[2]
j=json.load(open(p)); j['sweep_on_repo_itself']={"how":"git -C /repo apply patch.diff; ./check <ID> quick; git -C /repo checkout -- .","results":res.split()}
json.dump(j,open(p,'w'),indent=1)
PY
done
# leave the engine built against the clean tree
./check C11 quick >/dev/null 2>&1
rm -rf $VERIF_OUT
