#!/usr/bin/env bash
# tools/seedprocess.sh <worktree> <ID> <slot> : confirm a seeded change (seedconfirm.sh) and run the quick checks of
# its property and of the neighbouring checks against a scratch copy (seedtest.sh, scratch dir /tmp/seedtest<slot>).
# Output: /tmp/seedres/<basename of the worktree's parent>-<ID>.txt
set -u
WT="$1"; ID="$2"; SLOT="${3:-0}"
declare -A NB=( [C01]="C01 C03 C10" [C02]="C02 C18 C05" [C03]="C03 C04 C01" [C04]="C04 C03" [C05]="C05 C02" [C06]="C06 C20"
  [C07]="C07 C05 C15" [C08]="C08 C01" [C09]="C09 C04" [C10]="C10 C01" [C11]="C11 C15" [C12]="C12 C19" [C13]="C13 C01"
  [C14]="C14" [C15]="C15" [C16]="C16" [C17]="C17 C10" [C18]="C18 C02" [C19]="C19" [C20]="C20 C06" )
mkdir -p /tmp/seedres
OUT=/tmp/seedres/$(basename "$(dirname "$WT")")-$ID.txt
{
  echo "## confirm"; /verif/tools/seedconfirm.sh "$WT"
  echo "## checks"; SEEDTEST_DIR=/tmp/seedtest$SLOT /verif/tools/seedtest.sh "$WT/patch.diff" ${NB[$ID]}
} > "$OUT" 2>&1
echo "done $OUT"
