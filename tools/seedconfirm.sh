#!/usr/bin/env bash
# tools/seedconfirm.sh <worktree>  : confirm a seeded change ourselves in its scratch worktree:
#   (1) with the change: workspace suite passes (demo moved aside)  (2) with the change: demo fails
#   (3) without the change: demo passes.   Prints a JSON summary line.
set -u
WT="$1"; cd "$WT" || exit 2
export CARGO_NET_OFFLINE=true
git apply -R --check patch.diff 2>/dev/null || { git checkout -q -- src codegen; git apply patch.diff || { echo '{"error":"patch does not apply"}'; exit 2; }; }
mkdir -p .aside && mv tests/demo.rs .aside/demo.rs
suite=$(cargo test --workspace --no-fail-fast --offline 2>&1 | grep -E "^test result" | tr '\n' ';')
suite_ok=$(echo "$suite" | grep -c "FAILED")
mv .aside/demo.rs tests/demo.rs
with=$(cargo test --offline --test demo 2>&1 | grep -E "^test result" | tr '\n' ';')
git apply -R patch.diff
without=$(cargo test --offline --test demo 2>&1 | grep -E "^test result" | tr '\n' ';')
git apply patch.diff
echo "{\"suite_with_change\": \"$suite\", \"suite_failed_targets\": $suite_ok, \"demo_with_change\": \"$with\", \"demo_without_change\": \"$without\"}"
