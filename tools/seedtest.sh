#!/usr/bin/env bash
# tools/seedtest.sh <patch.diff> <ID> [<ID> ...]
# Runs the quick checks against a scratch copy of /repo with the patch applied (used while a background run
# needs /repo untouched).  Confirmation runs against /repo itself are done with tools/seedconfirm.sh.
set -u
PATCH="$(readlink -f "$1")"; shift
S=${SEEDTEST_DIR:-/tmp/seedtest}
mkdir -p $S
if [ ! -d $S/repo ]; then git -C /repo worktree add -q --detach $S/repo HEAD; fi
git -C $S/repo checkout -q --detach "$(git -C /repo rev-parse HEAD)" && git -C $S/repo checkout -q -- . && git -C $S/repo clean -fdq -e target
git -C $S/repo apply "$PATCH" || { echo "PATCH DOES NOT APPLY"; exit 3; }
rsync -a --delete --exclude target /verif/engine/ $S/engine/
sed -i "s|path = \"/repo\"|path = \"$S/repo\"|" $S/engine/Cargo.toml
mkdir -p $S/out $S/target
cp /verif/known_findings.json $S/out/
export CARGO_TARGET_DIR=$S/target VERIF_TARGET=$S/target VERIF_OUT=$S/out CARGO_NET_OFFLINE=true
( cd $S/engine && cargo build --release --offline 2>&1 | grep -E "^(error|warning: unused)" -A8 | head -30 )
for ID in "$@"; do
  if [ "$ID" = C19 ]; then
    ( cd $S/engine && cargo build --release --offline --manifest-path $S/repo/Cargo.toml --bin simc --target-dir $S/target/repo >/dev/null 2>&1 )
    [ -f $S/target/getrandom_shim.so ] || gcc -shared -fPIC -O2 -o $S/target/getrandom_shim.so /verif/shim/getrandom_shim.c
  fi
  $S/target/release/simfony-mc $ID quick > $S/out/$ID.log 2>&1; code=$?
  echo "== $ID exit=$code $(grep -c '^VIOLATION' $S/out/$ID.log) VIOLATION lines; $(tail -1 $S/out/$ID.log)"
  grep -A1 '^VIOLATION' $S/out/$ID.log | grep -v '^--' | head -6
done
git -C $S/repo checkout -q -- .
