#!/usr/bin/env bash
# Offline build of everything the checks need (engine; simc and the getrandom shim for C19).
set -e
cd "$(dirname "$0")"
export CARGO_NET_OFFLINE=true
mkdir -p target evidence
( cd engine && cargo build --release --offline )
( cd engine && cargo build --release --offline --manifest-path /repo/Cargo.toml --bin simc --target-dir /verif/target/repo )
if [ -f shim/getrandom_shim.c ]; then gcc -shared -fPIC -O2 -o target/getrandom_shim.so shim/getrandom_shim.c; fi
echo setup ok
